#!/bin/bash
# usage: run_seeds.sh [seed-id ...]   runs the quick check of the seed's property against a scratch copy with the seed applied
cd /verif
ids="$@"; [ -z "$ids" ] && ids=$(ls seeded)
for id in $ids; do
  prop=${id:0:3}
  [ -f pvmon/props/$prop.py ] || { echo "$id: no check for $prop yet"; continue; }
  out=$(tools/with_patch.sh /verif/seeded/$id/patch.diff ./check $prop 2>&1)
  rc=$(echo "$out" | grep -c "^VIOLATION")
  echo "$id: $( [ $rc -gt 0 ] && echo CAUGHT || echo MISSED ) ($(echo "$out" | grep -E "^$prop tier" | cut -c1-140))"
  echo "$out" | grep -m1 "^  kind" | cut -c1-260
done
