#!/bin/bash
# usage: verify_seed.sh <seed-id> [--suite]   (seed files in /tmp/seed/<id>/ : patch.diff demo.py meta.json)
# Confirms in a fresh scratch worktree of /repo HEAD: patch applies; demo passes without and fails with the patch;
# with --suite also runs the upstream test suite with the patch.  Copies the seed to /verif/seeded/<id>/ when confirmed.
id="$1"; suite="$2"
src=/tmp/seed/$id
wt=/tmp/vs-$id
out=/verif/seeded/$id
[ -f $src/patch.diff ] || { echo "no patch for $id"; exit 2; }
git -C /repo worktree remove --force $wt 2>/dev/null; rm -rf $wt
git -C /repo worktree add -q --detach $wt HEAD || exit 2
trap 'git -C /repo worktree remove --force '$wt' 2>/dev/null; rm -rf '$wt EXIT
cd $wt
PYTHONPATH=$wt/src timeout 900 /venv/bin/python $src/demo.py > /tmp/vs-$id.clean.txt 2>&1; rc_clean=$?
git apply $src/patch.diff || { echo "$id: PATCH DOES NOT APPLY to /repo HEAD"; exit 3; }
PYTHONPATH=$wt/src timeout 900 /venv/bin/python $src/demo.py > /tmp/vs-$id.mut.txt 2>&1; rc_mut=$?
echo "$id: demo clean rc=$rc_clean, mutated rc=$rc_mut"
res="demo clean rc=$rc_clean; demo with patch rc=$rc_mut"
if [ "$suite" = "--suite" ]; then
  PYTHONPATH=$wt/src /venv/bin/python -m pytest -q -p no:cacheprovider --timeout=900 -n 4 --deselect ve/unit/test_smoke.py::TestSmoke::test_smoke2 ve/unit > /tmp/vs-$id.suite.txt 2>&1
  tail -1 /tmp/vs-$id.suite.txt
  res="$res; upstream suite with patch: $(tail -1 /tmp/vs-$id.suite.txt)"
fi
if [ $rc_clean -eq 0 ] && [ $rc_mut -ne 0 ]; then
  mkdir -p $out
  cp $src/patch.diff $src/demo.py $out/
  /venv/bin/python - "$src/meta.json" "$out/meta.json" "$res" <<'P'
import json,sys
try: m=json.load(open(sys.argv[1]))
except Exception as e: m={"meta_error":str(e)}
m["verified_by_me"]=sys.argv[3]
json.dump(m,open(sys.argv[2],"w"),indent=1)
P
  echo "$id: CONFIRMED -> $out"
else
  echo "$id: NOT CONFIRMED"; tail -5 /tmp/vs-$id.clean.txt; tail -5 /tmp/vs-$id.mut.txt
fi
