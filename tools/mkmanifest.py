#!/venv/bin/python
"""Regenerates /verif/MANIFEST.json from the table below (keeps it valid at all times)."""
import json, os, subprocess, sys
VERIF = os.path.dirname(os.path.dirname(os.path.abspath(__file__)))
sys.path.insert(0, VERIF)
from checks_table import CHECKS, NOT_YET  # noqa

props = [json.loads(l) for l in open(os.path.join(VERIF, "properties.jsonl"))]
ids = [p["id"] for p in props]
hook_commits = subprocess.run(["git", "-C", "/repo", "log", "--format=%H", "--grep=^verif hooks"],
                              capture_output=True, text=True).stdout.split()
checks = []
for pid in ids:
    if pid not in CHECKS:
        continue
    c = CHECKS[pid]
    checks.append({
        "property_id": pid,
        "quick_cmd": "./check %s --tier quick" % pid,
        "thorough_cmd": "./check %s --tier thorough" % pid,
        "evidence_file": "/verif/evidence/%s.json" % pid,
        "replay_cmd_template": "./check %s --replay {path}" % pid,
        "engine": "pvmon",
        "level_claimed": {"category": c["level"], "text": c["text"], "design_ref": c["design_ref"]},
        "level_note": c["note"],
        "technique": c["technique"],
    })
na = [{"property_id": pid, "reason": NOT_YET.get(pid, "check not built yet (work in progress); not claimed")}
      for pid in ids if pid not in CHECKS]
m = {
    "version": 1,
    "setup_cmd": "./setup.sh",
    "hooks": {
        "guard": "PYVSC_VERIF",
        "enable": "environment variable PYVSC_VERIF=1 (set by ./check); pure Python, nothing to build: checks import /repo/src directly",
        "baseline_off_cmd": "cd /repo && env -u PYVSC_VERIF /venv/bin/python -m pytest -ra -q -p no:cacheprovider --timeout=900 --continue-on-collection-errors",
        "source_commits": hook_commits,
        "add_only": True,
    },
    "engines": [{"name": "pvmon", "path": "/verif/pvmon", "serves_properties": [c["property_id"] for c in checks],
                 "kind_free_text": "runtime monitors over real executions: reference-model oracles at the API boundary, "
                                   "solver-formula monitor at a guarded hook (clone + pointwise SAT), choice-point injection "
                                   "into RandState, fault injection at user callbacks, cross-process differential runs"}],
    "checks": checks,
    "not_applicable": na,
    "notes": "All checks: ./check <id> [--tier quick|thorough] [--seed N] [--replay file]; VERIF_SEED/VERIF_TIER honoured. "
             "Exit 0 held / 1 violation (VIOLATION line) / 2 run-level inconclusive (deciding monitor observed nothing). "
             "Known findings: /verif/known_findings.json (never written at run time).",
}
with open(os.path.join(VERIF, "MANIFEST.json"), "w") as f:
    json.dump(m, f, indent=1)
    f.write("\n")
import jsonschema
jsonschema.validate(m, json.load(open("/root/.vp/MANIFEST.schema.json")))
print("MANIFEST.json: %d checks, %d not_applicable - valid" % (len(checks), len(na)))
