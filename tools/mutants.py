#!/venv/bin/python
"""Monitor validation by deliberate property-breaking changes.

usage: tools/mutants.py [--only NAME_SUBSTR] [--prop Cxx] [--cases N] [--list]

For every mutant: copy /repo's working tree to a scratch directory under /tmp,
apply the textual replacement, run the quick check(s) of the affected
properties against the copy (PVMON_REPO), expect exit code 1 with a VIOLATION
line, remove the copy.  Nothing is ever changed in /repo."""
import argparse
import os
import shutil
import subprocess
import sys
import tempfile
import time

VERIF = os.path.dirname(os.path.dirname(os.path.abspath(__file__)))

# (name, relative file, old text, new text, [properties expected to catch it])
M = [
    # --- reverts (or partial reverts) of the late repairs: each must be caught by the property that motivated it
    ("objlist_size_not_restored", "src/vsc/model/randomizer.py",
     "                    fm._set_size(fm.presolve_size)", "                    if fm.is_scalar: fm._set_size(fm.presolve_size)", ["C16"]),
    ("external_fields_not_released", "src/vsc/model/randomizer.py",
     "            for rs in ri.randsets():\n                for f in rs.all_fields():\n                    f.dispose()\n\n        visited = []",
     "            pass\n\n        visited = []", ["C16"]),
    ("singleton_range_unsigned_literal", "src/vsc/model/solvegroup_swizzler_partsel.py",
     "                        ExprLiteralModel(t_range[0], f.is_signed, f.width)))", "                        ExprLiteralModel(t_range[0], False, 32)))", ["C14"]),
    ("swizzle_upper_bits_free", "src/vsc/model/solvegroup_swizzler_partsel.py",
     "        if d_width > 0 and d_width < f.width:", "        if False:", ["C14", "C20"]),
    ("range_picked_uniformly", "src/vsc/model/solvegroup_swizzler_partsel.py",
     "            sel = self.randstate.randint(0, total-1)\n            for t_range in range_l:\n                sel -= int(t_range[1]) - int(t_range[0]) + 1\n                if sel < 0:\n                    break",
     "            t_range = range_l[self.randstate.randint(0, len(range_l)-1)]", ["C20"]),
    ("in_empty_is_true", "src/vsc/model/expr_in_model.py",
     "            expr = ExprLiteralModel(1 if randsz_skipped else 0, False, 1)", "            expr = ExprLiteralModel(1, False, 1)", ["C02"]),
    ("bounds_negative_as_unsigned", "src/vsc/model/variable_bound_ctx_expr.py",
     "        if v < 0 and not (signed and e_signed):", "        if False:", ["C14"]),
    ("bounds_no_wrap_check", "src/vsc/model/variable_bound_ctx_expr.py",
     "        elif v >= (1 << self.width):\n            return None", "        elif False:\n            return None", ["C14"]),
    ("bounds_mixed_sign_vars", "src/vsc/visitors/variable_bound_visitor.py",
     "                if e.lhs.is_signed() == e.rhs.is_signed():", "                if True:", ["C14"]),
    ("bounds_signed_var_unsigned_ctx", "src/vsc/visitors/variable_bound_visitor.py",
     "                if rhs_is_nonrand and (ctx_signed or not e.lhs.is_signed()):", "                if rhs_is_nonrand:", ["C14"]),
    ("dynref_class_level", "src/vsc/rand_obj.py",
     "                        if model is not None and a in model.constraint_dynamic_m.keys():", "                        if False:", ["C06"]),
    ("empty_sum_dropped", "src/vsc/model/rand_info_builder.py",
     "        if len(e.arr.field_l) == 0:\n            # The sum of no elements", "        if False:\n            # The sum of no elements", ["C02", "C04"]),
    ("dynamic_block_not_rolled_back", "src/vsc/visitors/constraint_override_rollback_visitor.py",
     "        for c in f.constraint_dynamic_model_l:\n            c.accept(self)", "        pass", ["C04"]),
    ("objlist_clear_keeps_objects", "src/vsc/types.py",
     "        self.get_model().clear()\n        self.backing_arr.clear()", "        self.get_model().clear()", ["C04"]),
    ("nested_call_resets_in_use", "src/vsc/model/randomizer.py",
     "            for f,used in used_rand_l:\n                f.is_used_rand = used", "            pass", ["C17"]),
    ("subscript_merge_pops_index", "src/vsc/model/rand_info_builder.py",
     "                    idx = self._randset_m[self._active_randset]\n                    self._randset_m.pop(self._active_randset)\n                    self._randset_l[idx] = None\n                    self._active_randset = ex_randset\n            else:",
     "                    idx = self._randset_m[self._active_randset]\n                    self._randset_m.pop(idx)\n                    self._randset_l[idx] = None\n                    self._active_randset = ex_randset\n            else:", ["C04"]),
    ("objlist_setitem_user_side_only", "src/vsc/types.py",
     "            model.field_l[k] = fm\n            model.name_elems()", "            pass", ["C04"]),
    ("bounds_use_blocks_of_nonrandom_objects", "src/vsc/visitors/variable_bound_visitor.py",
     "            self._in_use = in_use and f.is_declared_rand and f.rand_mode", "            self._in_use = in_use", ["C17"]),
    ("foreach_condition_uses_last_mask_element", "src/vsc/visitors/x_expr_evaluator.py",
     "                if idx >= 0 and idx < len(field.field_l):\n                    field.field_l[idx].accept(self)", "                if True:\n                    field.accept(self)", ["C04"]),
    ("copy_drops_partselect", "src/vsc/visitors/constraint_copy_builder.py",
     "    def visit_expr_partselect(self, e):\n        if self.do_copy_level > 0:", "    def visit_expr_partselect(self, e):\n        if False:", ["C04"]),
    ("copy_unique_shares_terms", "src/vsc/visitors/constraint_copy_builder.py",
     "            self.constraints.append(ConstraintUniqueModel(\n                [self.expr(e) for e in c.unique_l]))", "            self.constraints.append(c.clone())", ["C04"]),
    ("ult_to_slt", "src/vsc/model/expr_bin_model.py",
     "ret = btor.Ult(lhs_n, rhs_n)", "ret = btor.Slt(lhs_n, rhs_n)", ["C01"]),
    ("uext_to_sext", "src/vsc/model/expr_bin_model.py",
     "ret = btor.Uext(e1, ctx_width-e1.width)", "ret = btor.Sext(e1, ctx_width-e1.width)", ["C01"]),
    ("ugte_to_ugt", "src/vsc/model/expr_bin_model.py",
     "ret = btor.Ugte(lhs_n, rhs_n)", "ret = btor.Ugt(lhs_n, rhs_n)", ["C01", "C02"]),
    ("in_range_le_to_lt", "src/vsc/model/expr_in_model.py",
     "ExprBinModel(self.lhs, BinExprType.Le, r.rhs))", "ExprBinModel(self.lhs, BinExprType.Lt, r.rhs))", ["C01", "C02"]),
    ("merge_drops_constraints", "src/vsc/model/rand_info_builder.py",
     "                for c in self._active_randset.constraints():\n                    ex_randset.add_constraint(c)\n                    \n                for c in self._active_randset.soft_constraints():",
     "                for c in self._active_randset.soft_constraints():", ["C01"]),
    ("enum_assert_skipped", "src/vsc/model/enum_field_model.py",
     "            btor.Assert(c)", "            pass", ["C01"]),
    ("post_randomize_no_sign", "src/vsc/model/field_scalar_model.py",
     "if self.is_signed and (val&(1 << self.width-1)) != 0:", "if False:", ["C01"]),
    ("ifelse_drops_else", "src/vsc/model/constraint_if_else_model.py",
     "        if self.false_c == None:", "        if True:", ["C01"]),
    ("solvefail_on_soft", "src/vsc/model/randomizer.py",
     "                    for c in soft_constraint_l:\n                        btor.Assume(c[1])\n                        \n                        if self.solve_info is not None:",
     "                    raise SolveFailure('solve failure', 'soft')\n                    for c in soft_constraint_l:\n                        btor.Assume(c[1])\n                        \n                        if self.solve_info is not None:",
     ["C05"]),
    ("soft_sort_ascending", "src/vsc/model/randomizer.py",
     "soft_constraint_l.sort(key=lambda c:c[0].priority, reverse=True)", "soft_constraint_l.sort(key=lambda c:c[0].priority)", ["C05"]),
    ("soft_failed_asserted", "src/vsc/model/randomizer.py",
     "                        if btor.Sat() == btor.SAT:\n                            if self.debug > 0:\n                                print(\"Note: soft constraint %s (%d) passed\" % (",
     "                        if True:\n                            if self.debug > 0:\n                                print(\"Note: soft constraint %s (%d) passed\" % (", ["C05"]),
    ("soft_guard_dropped", "src/vsc/model/rand_info_builder.py",
     "            soft_implies = ConstraintImpliesModel(and_cond, [c])", "            soft_implies = ConstraintImpliesModel(ExprLiteralModel(1, False, 1), [c])", ["C05"]),
    ("soft_priority_not_cleared", "src/vsc/model/randomizer.py",
     "        for f in field_model_l:\n            f.set_used_rand(True, 0)\n            clear_soft_priority.clear(f)",
     "        for f in field_model_l:\n            f.set_used_rand(True, 0)", ["C05"]),
    ("soft_else_guard_not_negated", "src/vsc/model/rand_info_builder.py",
     "            self._soft_cond_l[-1] = ExprUnaryModel(UnaryExprType.Not, c.cond)", "            pass", ["C05"]),
    ("foreach_unroll_short", "src/vsc/visitors/array_constraint_builder.py",
     "            for i in range(len(fm.field_l)):\n                f.index.set_val(i)", "            for i in range(max(0, len(fm.field_l)-1)):\n                f.index.set_val(i)", ["C04"]),
    ("list_len_is_model_len", "src/vsc/types.py",
     "            return int(model.size.get_val())", "            return len(model.field_l)", ["C04"]),
    ("list_append_no_mask", "src/vsc/types.py",
     "            mask_v = int(v) & self.mask", "            mask_v = int(v)", ["C18"]),
    ("list_clear_keeps_size", "src/vsc/model/field_array_model.py",
     "    def clear(self):\n        self.field_l.clear()\n        self._set_size(0)", "    def clear(self):\n        self.field_l.clear()", ["C04"]),
    ("unique_list_skips_first", "src/vsc/model/constraint_unique_model.py",
     "        for f in l.field_l:\n            unique_l.append(ExprFieldRefModel(f))", "        for f in l.field_l[1:]:\n            unique_l.append(ExprFieldRefModel(f))", ["C04"]),
    ("sum_skips_last", "src/vsc/model/field_array_model.py",
     "            for i in range(int(self.size.get_val())):\n                f = self.field_l[i]\n                ret = ExprBinModel(\n                    ret,\n                    BinExprType.Add,",
     "            for i in range(max(0, int(self.size.get_val())-1)):\n                f = self.field_l[i]\n                ret = ExprBinModel(\n                    ret,\n                    BinExprType.Add,", ["C04"]),
    ("bounds_var_lt_offset", "src/vsc/visitors/variable_bound_visitor.py",
     "            propagator = VariableBoundBoundsMaxPropagator(\n                lhs_bounds, rhs_bounds, -1)",
     "            propagator = VariableBoundBoundsMaxPropagator(\n                lhs_bounds, rhs_bounds, -2)", ["C14"]),
    ("bounds_var_gt_offset", "src/vsc/visitors/variable_bound_visitor.py",
     "            propagator = VariableBoundBoundsMinPropagator(\n                lhs_bounds, rhs_bounds, 1)",
     "            propagator = VariableBoundBoundsMinPropagator(\n                lhs_bounds, rhs_bounds, 2)", ["C14"]),
    ("bounds_expr_le_as_lt", "src/vsc/visitors/variable_bound_visitor.py",
     "        elif op == BinExprType.Le:\n            # The max bound is \n            propagator = VariableBoundExprMaxPropagator(\n                lhs_bounds,\n                VariableBoundCtxExpr(rhs_e, ctx_width, ctx_signed))",
     "        elif op == BinExprType.Le:\n            # The max bound is \n            propagator = VariableBoundExprMaxPropagator(\n                lhs_bounds,\n                VariableBoundCtxExpr(rhs_e, ctx_width, ctx_signed, -1))", ["C14"]),
    ("bounds_nre_lt_no_plus1_wrongway", "src/vsc/visitors/variable_bound_visitor.py",
     "            propagator = VariableBoundExprMinPropagator(\n                rhs_bounds,\n                VariableBoundCtxExpr(lhs_e, ctx_width, ctx_signed, 1))",
     "            propagator = VariableBoundExprMinPropagator(\n                rhs_bounds,\n                VariableBoundCtxExpr(lhs_e, ctx_width, ctx_signed, 2))", ["C14"]),
    ("swizzle_upper_bits_wrong", "src/vsc/model/solvegroup_swizzler_partsel.py",
     "                ExprLiteralModel((bit_pattern >> d_width) & ((1 << u_width)-1), False, u_width)",
     "                ExprLiteralModel(0, False, u_width)", ["C14"]),
    ("swizzle_range_skips_last", "src/vsc/model/solvegroup_swizzler_partsel.py",
     "            sel = self.randstate.randint(0, total-1)", "            sel = self.randstate.randint(0, total-1-(int(range_l[-1][1])-int(range_l[-1][0])+1))", ["C14"]),
    ("bounds_visit_if_bodies", "src/vsc/visitors/variable_bound_visitor.py",
     "    def visit_constraint_if_else(self, c:ConstraintIfElseModel):", "    def visit_constraint_if_else_DISABLED(self, c:ConstraintIfElseModel):", ["C14"]),
    ("in_propagator_drops_first", "src/vsc/model/variable_bound_in_propagator.py",
     "        for i in range(0,len(in_r_l_t)):", "        for i in range(1 if len(in_r_l_t) > 2 else 0,len(in_r_l_t)):", ["C14"]),
    ("unconstrained_range_short", "src/vsc/model/randomizer.py",
     "                    self.randstate.randint(range_l[0][0], range_l[0][1]))", "                    self.randstate.randint(range_l[0][0], max(range_l[0][0], range_l[0][1]-1)))", ["C14"]),
    ("dist_cumwalk_lt", "src/vsc/model/constraint_dist_scope_model.py",
     "            if seed_v <= 0:", "            if seed_v < 0:", ["C15"]),
    ("dist_zero_weight_not_excluded", "src/vsc/visitors/dist_constraint_builder.py",
     "                        ExprLiteralModel(0, False, 8)),\n                    [\n                        ExprUnaryModel(",
     "                        ExprLiteralModel(99, False, 8)),\n                    [\n                        ExprUnaryModel(", ["C15"]),
    ("dist_range_upper_excl", "src/vsc/model/solvegroup_swizzler_partsel.py",
     "                val = self.randstate.randint(val_l, val_r)", "                val = self.randstate.randint(val_l, max(int(val_l), int(val_r)-1))", ["C15"]),
    ("distselect_le_to_lt", "src/vsc/methods.py",
     "        if rand_v <= 0:", "        if rand_v < 0:", ["C15"]),
    ("distselect_from_zero", "src/vsc/methods.py",
     "    rand_v = random.randint(1, total_w)", "    rand_v = random.randint(0, total_w)", ["C15"]),
    ("order_ignored", "src/vsc/model/solvegroup_swizzler_partsel.py",
     "        if rs.rand_order_l is not None:", "        if False:", ["C20"]),
    ("order_reversed", "src/vsc/model/solvegroup_swizzler_partsel.py",
     "            for ro_l in rs.rand_order_l:", "            for ro_l in reversed(rs.rand_order_l):", ["C20"]),
    ("order_expand_dropped", "src/vsc/model/rand_info_builder.py",
     "                    ExpandSolveOrderVisitor(self._order_m).expand(a, b)", "                    ExpandSolveOrderVisitor(self._order_m).expand(b, a)", ["C20"]),
    ("order_swizzle_assume_only", "src/vsc/model/solvegroup_swizzler_partsel.py",
     "                    btor.Assert(n)\n                else:", "                    pass\n                else:", ["C20", "C14"]),
    ("cb_visited_guard_removed", "src/vsc/model/field_composite_model.py",
     "        visited.append(self)\n        for f in self.field_l:\n            if f not in visited:\n                f.post_randomize(visited)",
     "        visited.append(self)\n        for f in self.field_l:\n            f.post_randomize(visited)\n            if False:\n                f.post_randomize(visited)", ["C17"]),
    ("cb_on_declared_rand", "src/vsc/model/field_composite_model.py",
     "        if self.is_used_rand and self.rand_if is not None:\n            self.rand_if.do_pre_randomize()",
     "        if (self.is_used_rand or self.parent is not None) and self.rand_if is not None:\n            self.rand_if.do_pre_randomize()", ["C17"]),
    ("cb_post_twice_for_list", "src/vsc/model/field_array_model.py",
     "    def post_randomize(self, visited):\n        FieldCompositeModel.post_randomize(self, visited)",
     "    def post_randomize(self, visited):\n        FieldCompositeModel.post_randomize(self, visited)\n        if not self.is_scalar:\n            FieldCompositeModel.post_randomize(self, visited)", ["C17"]),
    ("cb_pre_after_bounds", "src/vsc/model/randomizer.py",
     "        # First, invoke pre_randomize on all elements\n        visited = []\n        for fm in field_model_l:\n            fm.pre_randomize(visited)\n",
     "", ["C17"]),
    ("cb_post_skipped_on_with", "src/vsc/model/randomizer.py",
     "        visited = [] \n        for fm in field_model_l:\n            fm.post_randomize(visited)",
     "        visited = [] \n        for fm in field_model_l:\n            if constraint_l is None or len(constraint_l) == 0 or not hasattr(constraint_l[0], 'name') or constraint_l[0].name != 'inline':\n                fm.post_randomize(visited)", ["C17"]),
    ("c16_no_cleanup_in_finally", "src/vsc/model/randomizer.py",
     "                ConstraintOverrideRollbackVisitor.rollback(f)\n                Randomizer._release_solver_handles(f, visited, failed)\n                f.set_used_rand(False, 0)",
     "                pass", ["C16", "C03"]),
    ("c16_if_then_exit_no_pop_on_exc", "src/vsc/constraints.py",
     "    def __exit__(self, t, v, tb):\n        pop_constraint_scope()\n        \n        \nclass else_if(object):",
     "    def __exit__(self, t, v, tb):\n        if t is None:\n            pop_constraint_scope()\n        \n        \nclass else_if(object):", ["C16"]),
    ("c16_foreach_exit_no_pop_on_exc", "src/vsc/constraints.py",
     "                return idx_term\n\n    def __exit__(self, t, v, tb):\n        pop_constraint_scope()",
     "                return idx_term\n\n    def __exit__(self, t, v, tb):\n        if t is None:\n            pop_constraint_scope()", ["C16"]),
    ("c16_with_exit_leaves_expr_mode", "src/vsc/rand_obj.py",
     "                c = pop_constraint_scope()\n                leave_expr_mode()\n                pop_srcinfo_mode()",
     "                c = pop_constraint_scope()\n                if t is None:\n                    leave_expr_mode()\n                pop_srcinfo_mode()", ["C16"]),
    ("c16_ctor_cleanup_removed", "src/vsc/rand_obj.py",
     "                                        while constraint_scope_depth() > scope_depth:\n                                            pop_constraint_scope()\n                                        clear_exprs()\n                                        raise e\n                                    fo.set_model(pop_constraint_scope())\n                                    model.add_constraint(fo.model)",
     "                                        raise e\n                                    fo.set_model(pop_constraint_scope())\n                                    model.add_constraint(fo.model)", ["C16"]),
    ("c09_fields_iterated_as_set", "src/vsc/model/rand_set.py",
     "        return self.field_rand_l", "        return list(set(self.field_rand_l))", ["C09"]),
    ("c09_dist_uses_global_random", "src/vsc/model/constraint_dist_scope_model.py",
     "        seed_v = randstate.rng.randint(1, self.total_weight)", "        import random\n        seed_v = random.randint(1, self.total_weight)", ["C09"]),
    ("c09_get_randstate_live", "src/vsc/rand_obj.py",
     "                return ro_int.get_randstate().clone()", "                return ro_int.get_randstate()", ["C09"]),
    ("c09_set_randstate_no_clone", "src/vsc/impl/randobj_int.py",
     "        self.randstate = rs.clone()", "        self.randstate = rs", ["C09"]),
    ("c09_debug_consumes_draw", "src/vsc/model/randomizer.py",
     "        if self.debug > 0:\n            rs_i = 0", "        if self.debug > 0:\n            self.randstate.randint(0, 3)\n            rs_i = 0", ["C09"]),
    ("c09_srcinfo_changes_order", "src/vsc/model/rand_info_builder.py",
     "        randset_l = list(filter(lambda e: e is not None, builder._randset_l))",
     "        randset_l = list(filter(lambda e: e is not None, builder._randset_l))\n        if any(getattr(c, 'srcinfo', None) is not None for rs in randset_l for c in rs.constraints()):\n            randset_l.reverse()", ["C09"]),
    ("c09_solvefail_debug_extra_draw", "src/vsc/model/randomizer.py",
     "        self.solve_fail_debug = solve_fail_debug\n", "        self.solve_fail_debug = solve_fail_debug\n        if solve_fail_debug:\n            randstate.randint(0, 1)\n", ["C09"]),
    ("randsz_no_preextend", "src/vsc/visitors/array_constraint_builder.py",
     "                if len(f.field_l) < max_size and f.is_scalar:", "                if len(f.field_l) < max_size - 1 and f.is_scalar:", ["C04"]),
    ("unsat_returns", "src/vsc/model/randomizer.py",
     "            if btor.Sat() != btor.SAT:\n                # If the system doesn't solve with hard constraints added,",
     "            if btor.Sat() != btor.SAT and len(constraint_l) > 3:\n                # If the system doesn't solve with hard constraints added,",
     ["C02"]),
    ("not_inside_not_dropped", "src/vsc/types.py",
     "            return expr(ExprUnaryModel(\n                UnaryExprType.Not,\n                ExprInModel(lhs_e, rhs.range_l)))",
     "            return expr(ExprInModel(lhs_e, rhs.range_l))", ["C01"]),
    ("partselect_off_by_one", "src/vsc/model/expr_partselect_model.py",
     "            upper.val(),\n            lower.val()) ", "            upper.val(),\n            lower.val() if int(lower.val()) == 0 else int(lower.val())-1) ", ["C01"]),
    ("unique_skips_last_pair", "src/vsc/model/constraint_unique_model.py",
     "                for j in range(i+1, len(unique_l)):", "                for j in range(i+1, len(unique_l) if i > 0 else max(2, len(unique_l)-1)):", ["C01"]),
    ("implies_as_and", "src/vsc/model/constraint_implies_model.py",
     "        return btor.Implies(cond, body)", "        return btor.And(cond, body)", ["C01", "C02"]),
    ("literal_ctx_width_ignored", "src/vsc/model/expr_literal_model.py",
     "        return btor.Const(int(self.val()), ctx_width)", "        return btor.Const(int(self.val()) & ((1 << self._width)-1), ctx_width)", ["C01"]),
]


def run_mutant(m, cases, props_filter):
    name, rel, old, new, props = m
    d = tempfile.mkdtemp(prefix="pvmon-mut-")
    res = []
    try:
        subprocess.check_call(["rsync", "-a", "--exclude", ".git", "--exclude", "__pycache__", "--exclude", "cov.xml",
                               "/repo/", d + "/repo/"])
        p = os.path.join(d, "repo", rel)
        s = open(p).read()
        if old not in s:
            return [(name, "?", "PATTERN-NOT-FOUND", 0)]
        open(p, "w").write(s.replace(old, new, 1))
        env = dict(os.environ, PVMON_REPO=d + "/repo")
        for pr in props:
            if props_filter and pr not in props_filter:
                continue
            t0 = time.time()
            cmd = [os.path.join(VERIF, "check"), pr, "--tier", "quick"]
            if cases:
                cmd += ["--cases", str(cases)]
            r = subprocess.run(cmd, cwd=VERIF, env=env, capture_output=True, text=True)
            nviol = r.stdout.count("VIOLATION property=")
            first = ""
            for line in r.stdout.splitlines():
                if line.startswith("  kind="):
                    first = line.strip()[:150]
                    break
            res.append((name, pr, "CAUGHT" if (r.returncode == 1 and nviol) else "MISSED(rc=%d)" % r.returncode,
                        time.time() - t0, first))
    finally:
        shutil.rmtree(d, ignore_errors=True)
    return res


def main():
    ap = argparse.ArgumentParser()
    ap.add_argument("--only")
    ap.add_argument("--prop", action="append")
    ap.add_argument("--cases", type=int)
    ap.add_argument("--list", action="store_true")
    a = ap.parse_args()
    ms = list(M)
    try:
        sys.path.insert(0, os.path.join(VERIF, "tools"))
        import mutants_extra
        ms += mutants_extra.M
    except ImportError:
        pass
    if a.only:
        ms = [m for m in ms if a.only in m[0]]
    if a.prop:
        ms = [m for m in ms if set(a.prop) & set(m[4])]
    if a.list:
        for m in ms:
            print(m[0], m[1], m[4])
        return 0
    missed = 0
    for m in ms:
        for r in run_mutant(m, a.cases, a.prop):
            print("%-28s %-4s %-14s %5.1fs  %s" % (r[0], r[1], r[2], r[3], r[4] if len(r) > 4 else ""))
            sys.stdout.flush()
            if not r[2].startswith("CAUGHT"):
                missed += 1
    print("missed: %d" % missed)
    return 1 if missed else 0


if __name__ == "__main__":
    sys.exit(main())
