#!/venv/bin/python
"""Prints the generated tables of DESIGN.md section 7 (checks, fixes, findings, mutants, seeded changes)."""
import glob
import importlib
import json
import os
import re
import subprocess
import sys

VERIF = os.path.dirname(os.path.dirname(os.path.abspath(__file__)))
sys.path.insert(0, VERIF)
sys.path.insert(0, "/repo/src")
import checks_table  # noqa


def checks():
    print("| property | level | quick: cases / budget | thorough: cases / budget | deciding technique |")
    print("|---|---|---|---|---|")
    for pid in sorted(checks_table.CHECKS):
        m = importlib.import_module("pvmon.props." + pid)
        q, t = m.plan("quick"), m.plan("thorough")
        print("| %s | %s | %d / %ds | %d / %ds | %s |" % (pid, checks_table.CHECKS[pid]["level"], q["ncases"], q["budget_s"],
                                                       t["ncases"], t["budget_s"], checks_table.CHECKS[pid]["technique"]))


def fixes():
    out = subprocess.run(["git", "-C", "/repo", "log", "--reverse", "--format=%h %s"], capture_output=True, text=True).stdout
    print("| commit | change |")
    print("|---|---|")
    for line in out.splitlines():
        h, s = line.split(" ", 1)
        if s.startswith("fix:") or s.startswith("verif hooks"):
            print("| %s | %s |" % (h, s))


def findings():
    d = json.load(open(os.path.join(VERIF, "known_findings.json")))
    print("| id | properties | key | what fails |")
    print("|---|---|---|---|")
    for f in d["findings"]:
        print("| %s | %s | `%s` | %s |" % (f["id"], ", ".join(f["property"]), f["key"], f["what"].replace("|", "/")))


def mutants():
    sys.path.insert(0, os.path.join(VERIF, "tools"))
    import mutants as M
    print("| mutant | file | expected to be caught by |")
    print("|---|---|---|")
    for m in M.M:
        print("| %s | %s | %s |" % (m[0], m[1].replace("src/vsc/", ""), ", ".join(m[4])))
    for f in sorted(glob.glob(os.path.join(VERIF, "mutants", "cov", "*.diff"))):
        head = open(f).readline().strip().lstrip("# ")
        print("| cov/%s | %s | coverage checks (see header) |" % (os.path.basename(f)[:-5], head[:90]))


def seeds():
    res = {}
    rf = os.path.join(VERIF, "seeded", "RESULTS.txt")
    if os.path.exists(rf):
        for line in open(rf):
            m = re.match(r"(\w+): (CAUGHT|MISSED)", line)
            if m:
                res[m.group(1)] = m.group(2)
    print("| seeded change | property | what it needs to manifest | result of the property's quick check |")
    print("|---|---|---|---|")
    for d in sorted(glob.glob(os.path.join(VERIF, "seeded", "*", "meta.json"))):
        sid = os.path.basename(os.path.dirname(d))
        m = json.load(open(d))
        print("| %s | %s | %s | %s |" % (sid, m.get("property", sid[:3]), str(m.get("what_it_needs_to_manifest", ""))[:260].replace("|", "/").replace("\n", " "),
                                        m.get("check_result", res.get(sid, "?"))))


if __name__ == "__main__":
    which = sys.argv[1] if len(sys.argv) > 1 else "all"
    for name, fn in (("checks", checks), ("fixes", fixes), ("findings", findings), ("mutants", mutants), ("seeds", seeds)):
        if which in ("all", name):
            print("\n<!-- %s -->" % name)
            fn()
