#!/bin/bash
# usage: with_patch.sh [-R] <patch.diff> <command...>
# Runs <command> with PVMON_REPO pointing at a scratch copy of /repo's working tree
# (outside /repo and /verif) that has the patch applied; removes the copy afterwards.
rev=""
if [ "$1" = "-R" ]; then rev="-R"; shift; fi
patch="$1"; shift
d=$(mktemp -d /tmp/pvmon-mut-XXXXXX)
trap 'rm -rf "$d"' EXIT
mkdir -p "$d/repo"
rsync -a --exclude .git --exclude __pycache__ --exclude cov.xml /repo/ "$d/repo/"
( cd "$d/repo" && patch -p1 $rev --no-backup-if-mismatch -s < "$patch" ) || { echo "PATCH FAILED"; exit 99; }
PVMON_REPO="$d/repo" "$@"
