"""debug helper: PYTHONPATH=/verif:/repo/src PYVSC_VERIF=1 python tools/dbg_case.py C01 <idx> [tier] [seed]"""
import sys, json
from pvmon import common, ref as R, oracle as O, solvercase as SC
import importlib
prop = sys.argv[1]
mod = importlib.import_module("pvmon.props." + prop)
if sys.argv[2].endswith(".json"):
    spec = json.load(open(sys.argv[2]))["spec"]
else:
    idx = int(sys.argv[2])
    tier = sys.argv[3] if len(sys.argv) > 3 else "quick"
    seed = int(sys.argv[4]) if len(sys.argv) > 4 else 0
    spec = mod.gen_case(common.case_rng(prop, tier, seed, idx), tier, idx)
print(SC.source_of(spec))
sess, evs = SC.run(spec)
for n, ev in enumerate(evs):
    if not SC.is_call(ev): continue
    call = ev.get("call")
    print("== op", n, SC.src_op(ev["op"]).split("\n")[0], "->", ev["outcome"], ev.get("exc_type"), ev.get("exc_msg"))
    if call is None:
        print("   corner", ev.get("corner")); continue
    print("   rand leaves", call.rand_leaves)
    try:
        sols = call.enumerate()
    except R.Corner as c:
        print("   corner in enumerate:", c); continue
    print("   |S_ref| =", len(sols), "of", call.domain_size())
    for rec in ev["records"]:
        for b in rec.batches:
            print("   batch vars", [getattr(fm, "fullname", "?") for fm, *_ in b.vars], "nonrand", [(fm.fullname, v) for fm, v in b.nonrand], "hard", b.n_hard, "soft", b.n_soft)
    pw = O.pointwise(sess, ev["op"].get("o", "o0"), ev, sols=sols)
    print("   pointwise:", pw["status"], pw.get("n_mismatch"), pw["mismatches"][:4])
    if ev["outcome"] == "ok":
        print("   values", O.post_env(call, ev["post"]), "violated:", O.check_values(call, ev["post"]))
