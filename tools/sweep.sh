#!/bin/bash
# usage: sweep.sh "<seeds>" [tier] [props...]   runs checks over several seeds, prints one line per run
seeds="$1"; tier="${2:-quick}"; shift; shift
here="$(cd "$(dirname "$0")/.." && pwd)"   # the checkout this script belongs to (a vp run snapshot uses its own copy)
props="$@"; [ -z "$props" ] && props=$(cd "$here" && /venv/bin/python -c "import checks_table as c; print(' '.join(sorted(c.CHECKS)))")
cd "$here"
for s in $seeds; do for p in $props; do
  out=$(VERIF_SEED=$s ./check $p --tier $tier 2>&1); rc=$?
  echo "seed=$s $p rc=$rc $(echo "$out" | grep -E "^$p tier" | sed -E 's/.*(cases=[0-9]+).*(violations=[0-9]+ known=[0-9]+ inconclusive=[0-9]+).*(wall=[0-9.]+s)/\1 \2 \3/')"
  if [ $rc -ne 0 ]; then echo "$out" | grep -A1 "^VIOLATION\|^INCONCLUSIVE" | cut -c1-400 | head -6; fi
done; done
