#!/venv/bin/python
"""Replaces the generated tables of DESIGN.md section 7 in place (tables are found by their header row)."""
import io, os, sys, contextlib
VERIF = os.path.dirname(os.path.dirname(os.path.abspath(__file__)))
sys.path.insert(0, os.path.join(VERIF, "tools"))
import mkdesign_tables as T

def table(fn):
    buf = io.StringIO()
    with contextlib.redirect_stdout(buf):
        fn()
    return [l for l in buf.getvalue().splitlines() if l.startswith("|")]

p = os.path.join(VERIF, "DESIGN.md")
lines = open(p).read().split("\n")
for fn in (T.checks, T.fixes, T.findings, T.mutants, T.seeds):
    new = table(fn)
    hdr = new[0]
    idx = [i for i, l in enumerate(lines) if l.strip() == hdr.strip()]
    if len(idx) != 1:
        print("header not found exactly once:", hdr[:60], len(idx)); continue
    i = idx[0]; j = i
    while j < len(lines) and lines[j].startswith("|"):
        j += 1
    lines[i:j] = new
    print("replaced", hdr[:50], j - i, "->", len(new), "rows")
open(p, "w").write("\n".join(lines))
