#!/bin/bash
# Offline setup: nothing to download or compile (pure Python, uses /venv and /repo/src).
set -e
cd "$(dirname "$0")"
export PYTHONDONTWRITEBYTECODE=1
PYTHONPATH="$PWD:/repo/src" /venv/bin/python -c "import pvmon.common, pvmon.cli, pvmon.worker; import vsc; print('pvmon setup ok')"
mkdir -p evidence replays
