"""Turns a DSL program into live pyvsc classes/objects through the documented
user-level API only, and pretty-prints it as ordinary pyvsc source.

Rules (a harness that breaks them manufactures false alarms):
 (i)  operands are materialised strictly left to right, exactly as Python
      evaluates the source text (the library pairs operands by popping a shared
      expression stack); an expression object is never reused;
 (ii) a bare int on the left of an arithmetic operator is not in the language.
"""
import enum
import operator

OPS = {"==": operator.eq, "!=": operator.ne, "<": operator.lt, "<=": operator.le, ">": operator.gt,
       ">=": operator.ge, "+": operator.add, "-": operator.sub, "*": operator.mul, "/": operator.truediv,
       "%": operator.mod, "&": operator.and_, "|": operator.or_, "^": operator.xor,
       "<<": operator.lshift, ">>": operator.rshift}


class Built(object):
    def __init__(self, vsc, prog):
        self.vsc = vsc
        self.prog = prog
        self.enums = {}
        self.classes = {}
        self.log = []          # callback recorder (M5)
        self.seq = [0]
        self.pre_actions = {}  # instance-id -> list of (fieldname, value) applied in pre_randomize
        self.fault = None      # ("pre"|"post"|"cons"|..., selector) -> raise InjectedFault when reached

    def new(self, cname, *a):
        return self.classes[cname](*a)


class InjectedFault(Exception):
    pass


def build(vsc, prog, callbacks=False, srcinfo=False):
    bt = Built(vsc, prog)
    bt.srcinfo = srcinfo
    for en, members in prog.get("enums", {}).items():
        kind = prog.get("enum_kinds", {}).get(en, "IntEnum")
        base = enum.IntEnum if kind == "IntEnum" else enum.Enum
        bt.enums[en] = base(en, [(m, v) for m, v in members])
    order = _class_order(prog)
    for cname in order:
        bt.classes[cname] = _make_class(bt, cname, callbacks)
    return bt


def _class_order(prog):
    done, out = set(), []

    def visit(c):
        if c in done:
            return
        done.add(c)
        cd = prog["classes"][c]
        if cd.get("base"):
            visit(cd["base"])
        for fd in cd["fields"]:
            if fd["k"] == "obj" or (fd["k"] == "list" and fd.get("ek") == "obj"):
                visit(fd["c"])
        out.append(c)
    for c in prog["classes"]:
        visit(c)
    return out


def _mk_scalar(bt, fd, for_list=False):
    vsc = bt.vsc
    if fd["k"] == "enum" or fd.get("ek") == "enum":
        E = bt.enums[fd["e"]]
        if for_list:
            return vsc.enum_t(E)
        t = vsc.rand_enum_t(E) if fd["r"] else vsc.enum_t(E)
        return t
    w, s = fd["w"], fd["s"]
    if for_list:
        return vsc.int_t(w) if s else vsc.bit_t(w)
    i = fd.get("i", 0)
    if fd["r"]:
        return vsc.rand_int_t(w, i=i) if s else vsc.rand_bit_t(w, i=i)
    return vsc.int_t(w, i=i) if s else vsc.bit_t(w, i=i)


def _mk_field(bt, fd):
    vsc = bt.vsc
    k = fd["k"]
    if k in ("int", "enum"):
        f = _mk_scalar(bt, fd)
        return f
    if k == "obj":
        o = bt.classes[fd["c"]]()
        return vsc.rand_attr(o) if fd["r"] else vsc.attr(o)
    if k == "list":
        ek = fd["ek"]
        if ek == "obj":
            proto = bt.classes[fd["c"]]()
        else:
            proto = _mk_scalar(bt, fd, for_list=True)
        if fd.get("rsz"):
            l = vsc.randsz_list_t(proto)      # (a random-size list of objects is populated by the user, below)
        elif fd["r"]:
            l = vsc.rand_list_t(proto, sz=0 if ek == "obj" else (0 if "init" in fd else fd.get("sz", 0)))
        else:
            l = vsc.list_t(proto, sz=0 if ek == "obj" else (0 if "init" in fd else fd.get("sz", 0)))
        return l
    if k == "rangelist":
        return vsc.rangelist(*[tuple(x) if isinstance(x, (list, tuple)) else x for x in fd["items"]])
    raise Exception("unknown field kind %r" % k)


def _make_class(bt, cname, callbacks):
    vsc = bt.vsc
    prog = bt.prog
    cd = prog["classes"][cname]
    base = bt.classes[cd["base"]] if cd.get("base") else object

    def __init__(self):
        if base is not object:
            base.__init__(self)
        for fd in cd["fields"]:
            setattr(self, fd["n"], _mk_field(bt, fd))
            if fd["k"] == "list":
                # populate after the list is attached (append builds the model)
                l = object.__getattribute__(self, fd["n"])
                if fd["ek"] == "obj":
                    for _ in range(fd.get("sz", 0)):
                        l.append(bt.classes[fd["c"]]())
                elif "init" in fd:
                    for v in fd["init"]:
                        l.append(bt.enums[fd["e"]][v] if fd["ek"] == "enum" else v)

    ns = {"__init__": __init__}
    for blk in cd["blocks"]:
        def body(self, blk=blk):
            em = Emitter(bt, self)
            if bt.fault and bt.fault[0] == "cons" and bt.fault[1] == (cname, blk["n"]):
                em.fault_at = bt.fault[2]
            em.stmts(blk["st"])
        body.__name__ = blk["n"]
        ns[blk["n"]] = vsc.dynamic_constraint(body) if blk.get("dyn") else vsc.constraint(body)
    if callbacks:
        def pre_randomize(self):
            bt.seq[0] += 1
            vals = _visible(self, cd, prog, cname)
            bt.log.append((bt.seq[0], id(self), cname, "pre", vals))
            for fname, v in bt.pre_actions.get(id(self), []):
                setattr(self, fname, v)
            if bt.fault and bt.fault[0] == "pre" and bt.fault[1] == id(self):
                raise InjectedFault("pre_randomize")

        def post_randomize(self):
            bt.seq[0] += 1
            vals = _visible(self, cd, prog, cname)
            bt.log.append((bt.seq[0], id(self), cname, "post", vals))
            if bt.fault and bt.fault[0] == "post" and bt.fault[1] == id(self):
                raise InjectedFault("post_randomize")
            # segmented randomization: the callback randomizes one of its own sub-objects again
            for sub in getattr(bt, "post_nested", {}).get(id(self), []):
                getattr(self, sub).randomize()
        ns["pre_randomize"] = pre_randomize
        ns["post_randomize"] = post_randomize
    T = type(cname, (base,), ns)
    if getattr(bt, "srcinfo", False):
        return vsc.randobj(srcinfo=True)(T)
    return vsc.randobj(T)


def _visible(obj, cd, prog, cname):
    from . import ref
    out = {}
    for fd in ref.all_fields(prog, cname):
        if fd["k"] == "int":
            out[fd["n"]] = int(getattr(obj, fd["n"]))
        elif fd["k"] == "enum":
            out[fd["n"]] = getattr(obj, fd["n"]).name
    return out


class Emitter(object):
    """Replays DSL statements against the live API with self = obj."""

    def __init__(self, bt, obj):
        self.bt = bt
        self.vsc = bt.vsc
        self.obj = obj
        self.fe = []        # stack of (it, idx) live terms
        self.fault_at = None
        self.count = 0

    def nav(self, path):
        o = self.obj
        for p in path:
            o = getattr(o, p) if isinstance(p, str) else o[p]
        return o

    def expr(self, e):
        vsc = self.vsc
        k = e[0]
        if k == "c":
            return e[1]
        if k == "u":
            return vsc.unsigned(e[1], e[2])
        if k == "s":
            return vsc.signed(e[1], e[2])
        if k == "f":
            return self.nav(e[1])
        if k == "en":
            return self.bt.enums[e[1]][e[2]]
        if k == "b":
            l = self.expr(e[2])
            r = self.expr(e[3])
            return OPS[e[1]](l, r)
        if k == "n":
            return ~self.expr(e[1])
        if k in ("in", "nin"):
            lhs = self.expr(e[1])
            items = e[2]
            if len(items) == 1 and items[0][0] == "lst":
                rhs = self.nav(items[0][1])
            elif len(items) == 1 and items[0][0] == "rl":
                rhs = object.__getattribute__(self.obj, items[0][1])
            else:
                rhs = vsc.rangelist(*[self.item(it) for it in items])
            if isinstance(lhs, int):
                raise Exception("literal on the left of 'in' is not in the language")
            return lhs.inside(rhs) if k == "in" else lhs.not_inside(rhs)
        if k == "ps":
            return self.nav(e[1])[e[2]:e[3]]
        if k == "psit":
            # written through the list and the index (the iterator variable of a scalar list has no part-select)
            return self.nav(e[3])[self.fe[-1][1]][e[1]:e[2]]
        if k == "bs":
            return self.nav(e[1])[e[2]]
        if k == "sz":
            return self.nav(e[1]).size
        if k == "sum":
            return self.nav(e[1]).sum
        if k == "prod":
            return self.nav(e[1]).product
        if k == "it":
            return self.fe[e[1] if len(e) > 1 else -1][0]
        if k == "ita":
            return getattr(self.fe[e[2] if len(e) > 2 else -1][0], e[1])
        if k == "idx":
            return self.fe[e[1] if len(e) > 1 else -1][1]
        if k == "el":
            l = self.nav(e[1])
            i = self.expr(e[2])
            x = l[i]
            return getattr(x, e[3]) if (len(e) > 3 and e[3]) else x
        if k == "dyn":
            o = self.nav(e[1])
            return getattr(o, e[2])()
        if k == "dyni":
            o = self.nav(e[1])[self.expr(e[2])]
            return getattr(o, e[3])()
        raise Exception("unknown expr %r" % (e,))

    def item(self, it):
        if it[0] == "rng":
            return (self.expr(it[1]), self.expr(it[2]))
        return self.expr(it)

    def stmts(self, sl):
        vsc = self.vsc
        for s in sl:
            if self.fault_at is not None and self.count == self.fault_at:
                raise InjectedFault("constraint body statement %d" % self.count)
            self.count += 1
            k = s[0]
            if k == "e":
                self.expr(s[1])
            elif k == "if":
                first = True
                for cond, body in s[1]:
                    c = self.expr(cond)
                    with (vsc.if_then(c) if first else vsc.else_if(c)):
                        self.stmts(body)
                    first = False
                if s[2] is not None:
                    with vsc.else_then:
                        self.stmts(s[2])
            elif k == "imp":
                with vsc.implies(self.expr(s[1])):
                    self.stmts(s[2])
            elif k == "uniq":
                vsc.unique(*[self.nav(r[1]) if r[0] in ("f", "lst") else self.expr(r) for r in s[1]])
            elif k == "uvec":
                vsc.unique_vec(*[self.nav(p) for p in s[1]])
            elif k == "soft":
                vsc.soft(self.expr(s[1]))
            elif k == "dist":
                lhs = self.expr(s[1])
                ws = []
                for item, wexpr in s[2]:
                    if item[0] == "rng":
                        ws.append(vsc.weight((self.expr(item[1]), self.expr(item[2])), self.expr(wexpr)))
                    else:
                        ws.append(vsc.weight(self.expr(item), self.expr(wexpr)))
                vsc.dist(lhs, ws)
            elif k == "fe":
                mode = s[2]
                kw = {"it": True, "idx": True} if mode == "both" else ({"idx": True} if mode == "idx" else {})
                with vsc.foreach(self.nav(s[1]), **kw) as t:
                    if mode == "both":
                        i, it = t
                    elif mode == "idx":
                        i, it = t, None
                    else:
                        i, it = None, t
                    self.fe.append((it, i))
                    try:
                        self.stmts(s[3])
                    finally:
                        self.fe.pop()
            elif k == "so":
                b = [self.nav(p) for p in s[1]]
                a = [self.nav(p) for p in s[2]]
                vsc.solve_order(b[0] if len(b) == 1 else b, a[0] if len(a) == 1 else a)
            elif k == "raise":
                raise InjectedFault("user code")
            else:
                raise Exception("unknown stmt %r" % (k,))


class _ItProxy(object):
    pass


# ---------------------------------------------------------------------------
# pretty printer (pyvsc source text of a program)
# ---------------------------------------------------------------------------

def src_expr(e, me="self"):
    k = e[0]
    if k == "c":
        return str(e[1])
    if k == "u":
        return "vsc.unsigned(%d, %d)" % (e[1], e[2])
    if k == "s":
        return "vsc.signed(%d, %d)" % (e[1], e[2])
    if k == "f":
        return me + _src_path(e[1])
    if k == "en":
        return "%s.%s" % (e[1], e[2])
    if k == "b":
        return "(%s %s %s)" % (src_expr(e[2], me), e[1], src_expr(e[3], me))
    if k == "n":
        return "~%s" % src_expr(e[1], me)
    if k in ("in", "nin"):
        items = e[2]
        if len(items) == 1 and items[0][0] == "lst":
            rhs = me + _src_path(items[0][1])
        elif len(items) == 1 and items[0][0] == "rl":
            rhs = me + "." + items[0][1]
        else:
            rhs = "vsc.rangelist(%s)" % ", ".join(_src_item(i, me) for i in items)
        return "%s.%s(%s)" % (src_expr(e[1], me), "inside" if k == "in" else "not_inside", rhs)
    if k == "ps":
        return "%s%s[%d:%d]" % (me, _src_path(e[1]), e[2], e[3])
    if k == "psit":
        return "%s%s[i][%d:%d]" % (me, _src_path(e[3]), e[1], e[2])
    if k == "bs":
        return "%s%s[%d]" % (me, _src_path(e[1]), e[2])
    if k == "sz":
        return me + _src_path(e[1]) + ".size"
    if k == "sum":
        return me + _src_path(e[1]) + ".sum"
    if k == "prod":
        return me + _src_path(e[1]) + ".product"
    if k == "it":
        return "it%s" % ("" if len(e) == 1 else str(e[1]))
    if k == "ita":
        return "it.%s" % e[1]
    if k == "idx":
        return "i"
    if k == "el":
        return "%s%s[%s]%s" % (me, _src_path(e[1]), src_expr(e[2], me), ("." + e[3]) if (len(e) > 3 and e[3]) else "")
    if k == "dyn":
        return "%s%s.%s()" % (me, _src_path(e[1]), e[2])
    if k == "dyni":
        return "%s%s[%s].%s()" % (me, _src_path(e[1]), src_expr(e[2], me), e[3])
    return repr(e)


def _src_item(it, me):
    if it[0] == "rng":
        return "(%s, %s)" % (src_expr(it[1], me), src_expr(it[2], me))
    return src_expr(it, me)


def _src_path(path):
    out = ""
    for p in path:
        out += (".%s" % p) if isinstance(p, str) else ("[%d]" % p)
    return out


def src_stmts(sl, ind, me="self"):
    out = []
    pad = " " * ind
    for s in sl:
        k = s[0]
        if k == "e":
            out.append(pad + src_expr(s[1], me))
        elif k == "if":
            for j, (cond, body) in enumerate(s[1]):
                out.append(pad + "with vsc.%s(%s):" % ("if_then" if j == 0 else "else_if", src_expr(cond, me)))
                out.extend(src_stmts(body, ind + 4, me) or [pad + "    pass"])
            if s[2] is not None:
                out.append(pad + "with vsc.else_then:")
                out.extend(src_stmts(s[2], ind + 4, me) or [pad + "    pass"])
        elif k == "imp":
            out.append(pad + "with vsc.implies(%s):" % src_expr(s[1], me))
            out.extend(src_stmts(s[2], ind + 4, me))
        elif k == "uniq":
            out.append(pad + "vsc.unique(%s)" % ", ".join(me + _src_path(r[1]) if r[0] in ("f", "lst") else src_expr(r, me) for r in s[1]))
        elif k == "uvec":
            out.append(pad + "vsc.unique_vec(%s)" % ", ".join(me + _src_path(p) for p in s[1]))
        elif k == "soft":
            out.append(pad + "vsc.soft(%s)" % src_expr(s[1], me))
        elif k == "dist":
            ws = ", ".join("vsc.weight(%s, %s)" % (_src_item(i, me), src_expr(w, me)) for i, w in s[2])
            out.append(pad + "vsc.dist(%s, [%s])" % (src_expr(s[1], me), ws))
        elif k == "fe":
            kw = {"both": ", it=True, idx=True) as (i, it):", "idx": ", idx=True) as i:", "it": ") as it:"}[s[2]]
            out.append(pad + "with vsc.foreach(%s%s%s" % (me, _src_path(s[1]), kw))
            out.extend(src_stmts(s[3], ind + 4, me))
        elif k == "so":
            f = lambda ps: (me + _src_path(ps[0])) if len(ps) == 1 else "[%s]" % ", ".join(me + _src_path(p) for p in ps)
            out.append(pad + "vsc.solve_order(%s, %s)" % (f(s[1]), f(s[2])))
        elif k == "raise":
            out.append(pad + "raise UserError()")
    return out


def src_field(fd):
    k = fd["k"]
    if k == "int":
        t = ("rand_" if fd["r"] else "") + ("int_t" if fd["s"] else "bit_t")
        return "vsc.%s(%d%s)" % (t, fd["w"], (", i=%d" % fd["i"]) if fd.get("i") else "")
    if k == "enum":
        return "vsc.%senum_t(%s)" % ("rand_" if fd["r"] else "", fd["e"])
    if k == "obj":
        return "vsc.%s(%s())" % ("rand_attr" if fd["r"] else "attr", fd["c"])
    if k == "list":
        el = ("%s()" % fd["c"]) if fd["ek"] == "obj" else ("vsc.enum_t(%s)" % fd["e"] if fd["ek"] == "enum"
                                                          else "vsc.%s(%d)" % ("int_t" if fd["s"] else "bit_t", fd["w"]))
        if fd.get("rsz"):
            return "vsc.randsz_list_t(%s)%s" % (el, ("  # + %d appended objects" % fd.get("sz", 0)) if fd["ek"] == "obj" else "")
        return "vsc.%slist_t(%s, sz=%d)%s" % ("rand_" if fd["r"] else "", el, fd.get("sz", 0),
                                               ("  # init=%s" % fd["init"]) if "init" in fd else "")
    if k == "rangelist":
        return "vsc.rangelist(%s)" % ", ".join(str(tuple(x)) if isinstance(x, (list, tuple)) else str(x) for x in fd["items"])
    return repr(fd)


def src_program(prog):
    out = []
    for en, ms in prog.get("enums", {}).items():
        out.append("class %s(IntEnum): %s" % (en, "; ".join("%s=%d" % (m, v) for m, v in ms)))
    for cname in _class_order(prog):
        cd = prog["classes"][cname]
        out.append("@vsc.randobj")
        out.append("class %s(%s):" % (cname, cd.get("base") or "object"))
        out.append("    def __init__(self):")
        if cd.get("base"):
            out.append("        super().__init__()")
        for fd in cd["fields"]:
            out.append("        self.%s = %s" % (fd["n"], src_field(fd)))
        if not cd["fields"] and not cd.get("base"):
            out.append("        pass")
        for blk in cd["blocks"]:
            out.append("    @vsc.%s" % ("dynamic_constraint" if blk.get("dyn") else "constraint"))
            out.append("    def %s(self):" % blk["n"])
            out.extend(src_stmts(blk["st"], 8) or ["        pass"])
    return "\n".join(out)
