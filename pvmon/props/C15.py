"""C15 - dist and weighted selection follow their weights; zero weight means never.

Monitors: (universal part) reference meaning of dist = membership in the entries
with non-zero weight, judged on every call by value check + pointwise formula
equivalence (M2), under accompanying constraints, with weights supplied by
non-random fields that change between calls; (frequency part) complete
enumeration of the choice points of the RandState (M3) of the real
randomize() for programs in which nothing else constrains the field: the exact
probability of every value must equal sum_i w_i/total * 1/|entry_i|; (helpers)
distselect / randselect run once per path of a choice-point proxy substituted
for the module-level random: exact pick probabilities w_i/total, zero weights
never picked."""
import copy
from fractions import Fraction

from .. import common, gen, judge as J, ref as R, choice, solvercase as SC
from ..libstate import quiet, reset_lib_state, import_vsc
from ..session import Session, snap_get

LEVEL = "exploration"
RULE = ("case kinds: (a) dist program (values, ranges, zero weights, weights given by non-random fields changed between "
        "calls, dist under if, two dists on one field, accompanying relational constraints) + 2-5 calls, judged by value "
        "check and pointwise formula equivalence; (b) 'pure' dist program (nothing else constrains the field): the last "
        "call of the history is enumerated completely over the RandState choice points and the exact distribution is "
        "compared with weight/total (uniform inside ranges); (c) distselect / randselect with random weight vectors "
        "including zeros, enumerated completely. non-trivial = at least one zero weight or a range entry, or total weight > 1")
ASSUMPTIONS = ["a value named by a zero-weight entry is never produced, also when it lies inside a listed range; exact frequencies "
               "are only judged for dists whose entries do not overlap",
               "exact frequencies only for complete choice enumerations; nothing is concluded from capped ones"]
CASE_TIMEOUT = 240
DECIDE = J.VALUE_KINDS | {"spurious-solve-failure", "unsat-returned-normally", "other-exception",
                          "dist-frequency-mismatch", "zero-weight-produced", "select-frequency-mismatch", "select-exception"}


def plan(tier):
    return {"ncases": 480, "budget_s": 85} if tier == "quick" else {"ncases": 5000, "budget_s": 1200}


def gen_case(rng, tier, idx):
    kind = ["prog", "pure", "prog", "select"][idx % 4]
    if kind == "select":
        n = rng.randint(1, 6)
        ws = [rng.choice([0, 0, 1, 2, 3, 5, 8]) for _ in range(n)]
        if sum(ws) == 0:
            ws[rng.randrange(n)] = rng.randint(1, 4)
        return {"kind": "select", "weights": ws, "api": rng.choice(["distselect", "randselect"])}
    for _ in range(30):
        prog, g = gen.dist_program(rng, pure=(kind == "pure"))
        try:
            gen.validate(prog)
        except Exception:
            continue
        hist = gen.dist_history(g, prog, ncalls=rng.randint(2, 4) if kind == "pure" else rng.randint(2, 5))
        return {"kind": kind, "prog": prog, "hist": hist, "seed": rng.randint(1, 1 << 30), "max_points": 1 << 11,
                "max_paths": 8000 if tier == "quick" else 80000, "max_seconds": 25 if tier == "quick" else 200}
    return None


def expected_dist(prog, st):
    """exact distribution of field d for a pure program in state st"""
    blk = prog["classes"]["C0"]["blocks"][0]
    dist = [s for s in blk["st"] if s[0] == "dist"][0]
    ctx = R.Ctx(prog, st, ())
    ents = []
    total = 0
    for item, wexpr in dist[2]:
        w = R.ev_self(wexpr, ctx)
        total += w
        if item[0] == "rng":
            vals = list(range(item[1][1], item[2][1] + 1))
        else:
            vals = [item[1]]
        ents.append((vals, w))
    if total == 0:
        return None
    # frequencies are only specified when the entries do not overlap (a zero-weight hole inside a range leaves
    # the share of the range unspecified): the caller skips the frequency part then
    allv = [v for vals, w in ents for v in vals]
    if len(allv) != len(set(allv)):
        return "overlap"
    exp = {}
    for vals, w in ents:
        if w == 0 or not vals:
            continue
        for v in vals:
            exp[v] = exp.get(v, Fraction(0)) + Fraction(w, total) / len(vals)
    return exp


def m3_pure(spec, cnt):
    viol = []
    sess = Session(spec["prog"], seed=spec.get("seed", 1))
    sess.new("o0")
    hist = spec["hist"]
    last = max(i for i, op in enumerate(hist) if op["op"] == "randomize")
    for op in hist[:last]:
        ev = sess.apply(op)
        if ev.get("outcome") not in (None, "ok"):
            return viol
    st = copy.deepcopy(sess.state["o0"])
    exp = expected_dist(spec["prog"], st)
    if exp is None:
        cnt.inc("m3_all_zero_weights")
        return viol
    if exp == "overlap":
        cnt.inc("m3_overlapping_entries_skipped")
        return viol
    o = sess.live["o0"]
    hk = sess.hook
    d0 = st["f"]["d"]

    def run(rs):
        o.d = d0
        o.set_randstate(rs)
        hk.start_call()
        try:
            with quiet():
                o.randomize()
        finally:
            hk.end_call()
            hk.release_all()
        return int(o.d)
    hk.light = True
    try:
        res = choice.enumerate_paths(run, max_paths=spec.get("max_paths", 8000), max_seconds=spec.get("max_seconds", 25))
    finally:
        hk.light = False
    reset_lib_state()
    cnt.inc("m3_programs")
    cnt.inc("m3_paths", res["paths"])
    if res["abort"] or not res["complete"]:
        cnt.inc("m3_incomplete")
        return viol
    cnt.inc("m3_complete")
    got = {k: v for k, v in res["dist"].items() if v > 0}
    cnt.inc("m3_values_checked", len(set(got) | set(exp)))
    bad_zero = sorted(k for k in got if not isinstance(k, tuple) and k not in exp)
    raised = [k for k in got if isinstance(k, tuple)]
    src = SC.source_of({"prog": spec["prog"], "hist": hist[:last + 1]})
    if bad_zero:
        viol.append(("zero-weight-produced", "complete enumeration (%d paths) of the last call: values %s are produced with non-zero "
                     "probability although unlisted or zero-weighted; expected %s, got %s" % (
                         res["paths"], bad_zero, {k: str(v) for k, v in sorted(exp.items())},
                         {k: str(v) for k, v in sorted(got.items(), key=str)}), None))
    elif raised or got != exp:
        viol.append(("dist-frequency-mismatch", "complete enumeration (%d paths) of the last call: exact distribution %s differs from "
                     "weight/total %s" % (res["paths"], {str(k): str(v) for k, v in sorted(got.items(), key=str)},
                                          {k: str(v) for k, v in sorted(exp.items())}), None))
    return viol


def select_case(spec, cnt):
    vsc = import_vsc()
    import vsc.methods as M
    ws = spec["weights"]
    total = sum(ws)
    ch = choice.Chooser()
    proxy = choice.ChoiceRandom(ch)
    real = M.random
    dist = {}
    paths = 0
    viol = []
    M.random = proxy
    try:
        while True:
            ch.start()
            try:
                if spec["api"] == "distselect":
                    out = vsc.distselect(list(ws))
                else:
                    hit = []
                    vsc.randselect([(w, (lambda i=i: hit.append(i))) for i, w in enumerate(ws)])
                    out = hit[0] if len(hit) == 1 else ("calls", tuple(hit))
            except choice.Unsupported as e:
                cnt.inc("select_unsupported")
                return viol
            except Exception as e:
                viol.append(("select-exception", "%s(%s) raised %r" % (spec["api"], ws, e), None))
                return viol
            dist[out] = dist.get(out, Fraction(0)) + ch.prob
            paths += 1
            if not ch.advance() or paths > 5000:
                break
    finally:
        M.random = real
    cnt.inc("select_enumerations")
    cnt.inc("select_paths", paths)
    exp = {i: Fraction(w, total) for i, w in enumerate(ws) if w > 0}
    if dist != exp:
        viol.append(("select-frequency-mismatch", "%s(%s): exact pick distribution %s differs from weight/total %s" % (
            spec["api"], ws, {str(k): str(v) for k, v in sorted(dist.items(), key=str)}, {k: str(v) for k, v in exp.items()}), None))
    return viol


def exec_case(spec):
    if spec["kind"] == "select":
        cnt = common.Counters()
        viol = select_case(spec, cnt)
        res = {"counters": dict(cnt), "nontrivial": any(w == 0 for w in spec["weights"]) or sum(spec["weights"]) > 1,
               "source": "vsc.%s(%s)" % (spec["api"], spec["weights"]), "_viol": viol, "_evs": [], "_side": []}
        return J.finish(res, "C15", spec, observed_key="select_enumerations")
    res = J.judge(spec, DECIDE)
    if res.get("status") == common.INCONC:
        return res
    res["nontrivial"] = True
    if spec["kind"] == "pure":
        cnt = common.Counters()
        try:
            v3 = m3_pure(spec, cnt)
        except R.Corner:
            v3 = []
        for k, v in cnt.items():
            res["counters"][k] = res["counters"].get(k, 0) + v
        res["_viol"].extend(v3)
    return J.finish(res, "C15", spec)


def min_observation(tot, status_n, tier):
    if tot.get("calls_ok", 0) < 50:
        return False, "fewer than 50 successful dist calls"
    if tot.get("m3_complete", 0) < 10:
        return False, "fewer than 10 complete choice enumerations of dist programs"
    if tot.get("select_enumerations", 0) < 10:
        return False, "fewer than 10 distselect/randselect enumerations"
    return True, ""
