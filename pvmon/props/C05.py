"""C05 - soft constraints are never fatal, are honoured maximally, later ones win.

Oracle: exact greedy-by-priority reference over the exhaustively enumerated
hard solution set S_hard: visit the soft statements in descending priority
(later statement of a block first, inline after class), keep S & soft_i when
non-empty; a soft nested under if/else or implies is the implication
guards -> soft.  Where the property leaves the relative order unspecified
(softs of DIFFERENT class blocks) every block order is accepted."""
import itertools

from .. import common, gen, judge as J, ref as R, oracle as O, solvercase as SC

LEVEL = "exploration"
RULE = ("case = program with 0-5 hard and 1-6 soft statements (conflicts of every arity, softs under if/else-if/else and "
        "implies with random and non-random guards, several blocks) + 3-6 calls (randomize, randomize_with with inline "
        "softs and hard statements) with fresh non-random values; non-trivial = a call whose hard solution set is "
        "non-empty and where at least one soft statement cannot be honoured together with the others (the greedy "
        "reference drops at least one soft)")
ASSUMPTIONS = ["reference semantics ref.py; exact greedy-by-priority soft reference over the enumerated hard solution set",
               "relative priority of softs in different class blocks is unspecified: any block order accepted"]
CASE_TIMEOUT = 120
DECIDE = {"soft-not-honoured", "spurious-solve-failure", "other-exception", "value-violates-constraint", "value-outside-type"}


def plan(tier):
    return {"ncases": 640, "budget_s": 80} if tier == "quick" else {"ncases": 8000, "budget_s": 900}


def gen_case(rng, tier, idx):
    for _ in range(30):
        prog, g = gen.soft_program(rng, max_bits=9 if tier == "quick" else rng.choice([9, 11, 12]))
        if prog is None:
            continue
        try:
            gen.validate(prog)
        except Exception:
            continue
        hist = gen.soft_history(g, prog, ncalls=rng.randint(3, 6))
        return {"prog": prog, "hist": hist, "seed": rng.randint(1, 1 << 30), "max_points": 1 << (10 if tier == "quick" else 13)}
    return None


def soft_alternatives(call, sols):
    """greedy result for every admissible order of the class-block groups (inline always last = highest)"""
    items = call.soft_items()
    groups, order = {}, []
    for it in items:
        org = it[3]
        if org not in groups:
            groups[org] = []
            order.append(org)
        groups[org].append(it)
    cls_groups = [o for o in order if o != "inline"]
    paths = [p for p, _ in call.rand_leaves]
    alts = []
    dropped_any = False
    perms = list(itertools.permutations(cls_groups)) if len(cls_groups) <= 3 else [tuple(cls_groups)]
    for perm in perms:
        seq = []
        for o in perm:
            seq.extend(groups[o])
        seq.extend(groups.get("inline", []))
        S = list(sols)
        for sp, guards, e, org in reversed(seq):
            T = [t for t in S if R.soft_holds(guards, e, call.ctx(dict(zip(paths, t)), sp))]
            if T:
                S = T
            else:
                dropped_any = True
        alts.append(set(S))
    return alts, dropped_any, len(items)


def per_call(sess, ev, add, cnt):
    call = ev.get("call")
    sols = ev.get("sols")
    if call is None or sols is None or not sols:
        return
    try:
        alts, dropped, nsoft = soft_alternatives(call, sols)
    except R.Corner:
        cnt.inc("corner_calls")
        return
    if nsoft == 0:
        return
    cnt.inc("soft_calls")
    cnt.inc("soft_statements", nsoft)
    if dropped:
        cnt.inc("soft_conflict_calls")
        ev["_soft_conflict"] = True
    if ev["outcome"] != "ok":
        return
    val = call.value_of(lambda p: __import__("pvmon.session", fromlist=["snap_get"]).snap_get(ev["post"], p))
    if not any(val in a for a in alts):
        head = SC.src_op(ev["op"]).split("\n")[0]
        best = sorted(alts[0])[:3]
        add("soft-not-honoured", "%s returned %s which satisfies the hard constraints but not the maximal soft set; "
            "greedy-by-priority reference admits %d assignment(s), e.g. %s (of %d hard solutions, %d soft statements)" % (
                head, dict(zip([".".join(map(str, p)) for p, _ in call.rand_leaves], val)),
                len(alts[0]), best, len(sols), nsoft))
    else:
        cnt.inc("soft_agree")


def exec_case(spec):
    res = J.judge(spec, DECIDE, per_call=per_call)
    if res.get("status") == common.INCONC:
        return res
    res["nontrivial"] = any(ev.get("_soft_conflict") for ev in res.get("_evs", []))
    return J.finish(res, "C05", spec, observed_key="soft_agree")


def min_observation(tot, status_n, tier):
    if tot.get("soft_agree", 0) < 100:
        return False, "fewer than 100 calls with soft constraints judged"
    if tot.get("soft_conflict_calls", 0) < 30:
        return False, "fewer than 30 calls in which soft constraints conflict"
    return True, ""
