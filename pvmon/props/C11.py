"""C11 - cross bins count joint hits of their coverpoints.

Monitor M6 at the cross level, after EVERY sample: the cross must have one
bin per combination of its coverpoints' bins (named "<a,b>" after the names
the coverpoints report, row-major in coverpoint order); a sample increments
exactly the cross bin of the combination of bins the crossed coverpoints were
seen to hit (difference of the coverpoints' own hit lists before/after the
sample) iff the cross's iff and every crossed coverpoint's iff hold (computed
from the inputs by the reference); otherwise no cross bin may change."""
import traceback

from .. import common
from .. import covbuild as cb
from .. import covref
from ..libstate import import_vsc, reset_lib_state, raised_in_library

LEVEL = "exploration"
RULE = ("case = one covergroup with 2-4 coverpoints of pairwise disjoint bins (single bins, arrays, collections of "
        "several sub-models behind other bins, auto-bins, enums, ignore bins) and 1-2 crosses of 2..3 of them, iff "
        "conditions on crosses and coverpoints, + a sample history (exhaustive over the joint value space when it has "
        "<= 1024 points, then random with repeats); distinct by specification hash; non-trivial when at least one cross "
        "bin was incremented AND at least one sample had to leave every cross bin unchanged for each of the reasons that "
        "apply to the specification (coverpoint miss / gated coverpoint / gated cross)")
ASSUMPTIONS = [
    "coverpoints under a cross have pairwise disjoint bins (the statement presupposes 'the' bin a coverpoint hit)",
    "cross bins are ordered row-major in coverpoint order (first coverpoint slowest)",
    "the bins a coverpoint hit are read off the coverpoint's own hit counters (C10 decides whether those are right)",
]
CASE_TIMEOUT = 120


def plan(tier):
    return {"ncases": 2400 if tier == "quick" else 40000, "budget_s": 50 if tier == "quick" else 700}


def gen_case(rng, tier, idx):
    style = ("ws", "ro", "ws", "lm")[idx % 4]
    enums = {}
    ncp = rng.choice([2, 2, 3, 3, 4])
    gates = [{"n": "g%d" % g, "t": "bit", "w": rng.choice([1, 1, 2])} for g in range(rng.choice([1, 2]))]
    fields, cps = [], []
    for k in range(ncp):
        f = cb.gen_field(rng, "f%d" % k, kinds=("bit", "bit", "int", "enum"), minw=1, maxw=rng.choice([2, 3, 3, 4]),
                         enums=enums, tag="c11_")
        if f["t"] == "enum":
            enums[f["e"]] = enums[f["e"]][:5]
        fields.append(f)
        tv = cb.field_values(f, enums)
        cp = {"name": "cp%d" % k, "src": f["n"]}
        r = rng.random()
        if r < 0.2:
            cp["bins"] = None
            if f["t"] != "enum":
                cp["options"] = {"auto_bin_max": rng.choice([1, 2, 3, 5, 64])}
        else:
            cp["bins"] = cb.gen_disjoint_bins(rng, tv)
        if rng.random() < 0.25:
            cp["ignore"] = [["ig0", {"k": "bin", "items": [rng.choice(tv)]}]]
        if rng.random() < 0.4:
            cand = gates + [x for x in fields if x["n"] != f["n"]]
            cp["iff"] = cb.gen_iff(rng, cand, enums, callable_only=(style == "lm"))
        cps.append(cp)
    crosses = []
    for x in range(rng.choice([1, 1, 2])):
        n = rng.choice([2, 2, 3]) if ncp >= 3 else 2
        names = [c["name"] for c in cps]
        if rng.random() < 0.6:
            sel = sorted(rng.sample(range(ncp), n))
        else:
            sel = rng.sample(range(ncp), n)      # cross order != declaration order
        cr = {"name": "x%d" % x, "cps": [names[i] for i in sel]}
        if rng.random() < 0.5:
            cr["iff"] = cb.gen_iff(rng, gates + fields, enums, callable_only=(style == "lm"))
        crosses.append(cr)
    allf = fields + gates
    cg = {"name": "cg_c11_%d" % idx, "style": style, "enums": enums,
          "fields": [] if style == "lm" else allf, "ext": allf if style == "lm" else [],
          "options": {}, "variants": [{"cps": cps, "crosses": crosses}]}
    return {"cg": cg, "hseed": rng.getrandbits(32), "nrand": rng.choice([60, 120, 200] if tier == "quick" else [120, 300, 600])}


def exec_case(spec):
    import random
    import itertools
    import_vsc()
    cb.reset_registry()
    cg = spec["cg"]
    rng = random.Random(spec["hseed"])
    C = common.Counters()
    res = {"counters": C, "nontrivial": False, "source": cb.to_source(cg)}
    shape = covref.RefShape(cg, 0)
    tally = covref.Tally(shape)
    # generator contract: disjoint bins under a cross
    for rcp in shape.cps:
        seen = set()
        for _, s in rcp.bins:
            if seen & s:
                raise AssertionError("generator produced overlapping bins under a cross")
            seen |= s

    def viol(kind, msg):
        res.update(status=common.VIOL, kind=kind, msg=msg)
        return res

    try:
        lc = cb.LiveClass(cg)
        inst = lc.new(0)
    except Exception as e:
        reset_lib_state()
        if not raised_in_library(e):
            raise
        # construction failures are C10's subject; C11 cannot be decided on this case
        res.update(status=common.INCONC, kind="construct-exception:" + type(e).__name__,
                   msg=traceback.format_exc()[-400:])
        return res
    m = inst.model
    cpi = {c.name: i for i, c in enumerate(shape.cps)}
    # ---- structure: count, order, names
    for xi, rcr in enumerate(shape.crosses):
        cr = m.cross_l[xi]
        libcps = [m.coverpoint_l[cpi[c.name]] for c in rcr.cps]
        dims = [c.get_n_bins() for c in libcps]
        n = 1
        for d in dims:
            n *= d
        C.inc("cross_bins", n)
        if cr.get_n_bins() != n:
            return viol("cross-nbins", "%s has %d bins, its coverpoints have %s bins (product %d)" % (
                rcr.name, cr.get_n_bins(), dims, n))
        names = [[c.get_bin_name(i) for i in range(c.get_n_bins())] for c in libcps]
        for idx, tup in enumerate(itertools.product(*[range(d) for d in dims])):
            exp = "<" + ",".join(names[k][t] for k, t in enumerate(tup)) + ">"
            got = cr.get_bin_name(idx)
            C.inc("names_checked")
            if got != exp:
                return viol("cross-bin-name", "%s bin %d is named %r, expected %r (combination %s)" % (
                    rcr.name, idx, got, exp, tup))
    allf = cg["fields"] + cg["ext"]
    enums = cg["enums"]
    pools = {f["n"]: [rng.choice(cb.field_values(f, enums)) for _ in range(3)] for f in allf}
    prev_cp, prev_cr = cb.read_hits(m)
    st = {"inc": 0, "miss": 0, "cpgate": 0, "xgate": 0, "n": 0, "last": None}

    def step(values):
        nonlocal prev_cp, prev_cr
        try:
            inst.sample(values)
        except Exception as e:
            reset_lib_state()
            if not raised_in_library(e):
                raise
            return viol("exception-sample:" + type(e).__name__, "sample(%s) raised %r\n%s" % (
                values, e, traceback.format_exc()[-400:]))
        info = tally.sample(values)
        cur_cp, cur_cr = cb.read_hits(m)
        st["n"] += 1
        C.inc("samples")
        # which bins did each coverpoint hit, according to its own counters
        hit = []
        for ci in range(len(shape.cps)):
            d = [i for i, (a, b) in enumerate(zip(prev_cp[ci][0], cur_cp[ci][0])) if b != a]
            hit.append(d)
            if d != info["hit"][shape.cps[ci].name]:
                C.inc("cp_disagrees_with_reference")
        for xi, rcr in enumerate(shape.crosses):
            delta = [(i, b - a) for i, (a, b) in enumerate(zip(prev_cr[xi], cur_cr[xi])) if b != a]
            C.inc("cross_bins_compared", len(cur_cr[xi]))
            xg = covref.eval_iff(rcr.iff, values)
            gates = [info["gate"][c.name] for c in rcr.cps]
            hs = [hit[cpi[c.name]] for c in rcr.cps]
            if any(len(h) > 1 for h in hs):
                C.inc("ambiguous_samples")
                continue
            if xg and all(gates) and all(len(h) == 1 for h in hs):
                dims = [len(prev_cp[cpi[c.name]][0]) for c in rcr.cps]
                idx = 0
                for d, h in zip(dims, hs):
                    idx = idx * d + h[0]
                exp = [(idx, 1)]
                st["inc"] += 1
                C.inc("expected_increments")
            else:
                exp = []
                if not xg:
                    st["xgate"] += 1
                    C.inc("expected_nochange_cross_gated")
                elif not all(gates):
                    st["cpgate"] += 1
                    C.inc("expected_nochange_cp_gated")
                else:
                    st["miss"] += 1
                    C.inc("expected_nochange_cp_miss")
                if st["last"] == "inc":
                    C.inc("nochange_right_after_increment")
            if delta != exp:
                return viol("cross-hits" if exp else "cross-spurious-increment",
                            "sample #%d %s: cross %s changed %s (bin, delta), expected %s; cross iff=%s, coverpoint iffs=%s, "
                            "bins hit by %s = %s; previous sample %s" % (
                                st["n"], values, rcr.name, delta, exp, xg, gates, [c.name for c in rcr.cps], hs, st["last"]))
            # absolute tallies against the reference as a second opinion (only
            # while the coverpoints themselves agree with the reference)
            if not C.get("cp_disagrees_with_reference") and cur_cr[xi] != tally.cr[xi]:
                return viol("cross-tally", "sample #%d %s: cross %s tallies differ from the reference at %s" % (
                    st["n"], values, rcr.name,
                    [(i, a, b) for i, (a, b) in enumerate(zip(cur_cr[xi], tally.cr[xi])) if a != b][:6]))
        st["last"] = "inc" if any(x is not None for x in info["xinc"]) else "nochange"
        prev_cp, prev_cr = cur_cp, cur_cr
        return None

    doms = [cb.field_values(f, enums) for f in allf]
    size = 1
    for d in doms:
        size *= len(d)
    if size <= 1024:
        combos = list(itertools.product(*doms))
        rng.shuffle(combos)
        C.inc("exhaustive_joint_spaces")
        C.inc("joint_points", len(combos))
        for tup in combos:
            r = step({f["n"]: v for f, v in zip(allf, tup)})
            if r:
                return r
    for _ in range(spec["nrand"]):
        r = step(cb.values_for(rng, allf, enums, pools))
        if r:
            return r
    reasons_ok = st["miss"] > 0 and \
        (st["cpgate"] > 0 or not any(c.iff for x in shape.crosses for c in x.cps)) and \
        (st["xgate"] > 0 or not any(x.iff for x in shape.crosses))
    res["nontrivial"] = st["inc"] > 0 and reasons_ok
    res["status"] = common.HELD
    return res


def min_observation(tot, status_n, tier):
    need = {"expected_increments": 5000, "expected_nochange_cp_miss": 1000, "expected_nochange_cp_gated": 1000,
            "expected_nochange_cross_gated": 1000, "nochange_right_after_increment": 1000, "names_checked": 5000}
    for k, v in need.items():
        if tot.get(k, 0) < v:
            return False, "monitor counter %s = %d < %d" % (k, tot.get(k, 0), v)
    return True, ""


def extra_coverage(tot, results, tier):
    return {"exhaustive_part": "%d specifications had a joint value space of <= 1024 points, swept completely (%d points)" % (
        tot.get("exhaustive_joint_spaces", 0), tot.get("joint_points", 0)),
        "comparisons": int(tot.get("cross_bins_compared", 0))}
