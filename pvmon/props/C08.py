"""C08 - constraints reach through the object hierarchy to exactly the fields they name.

Monitors: M1 (values after the call evaluated by the reference over fields
flattened by attribute path / index) and M2 (pointwise equivalence of the
lowered formula: sibling aliasing or a sub-object block enforced although the
sub-object is not random shows as the wrong variable / an extra conjunct in
the formula, i.e. as a mismatch on some point of the domain)."""
from .. import common, gen, judge as J, ref as R

LEVEL = "exploration"
RULE = ("case = object tree of depth 2-3 (several sibling sub-objects of one class, random and non-random sub-objects, "
        "lists of objects, attribute names whose dir() order differs from declaration order) with cross-level constraints "
        "+ history of calls (randomize, randomize_with with cross-level inline constraints, vsc.randomize(subset), "
        "randomize on a sub-object) and assignments; non-trivial = a call relating fields of >= 2 different objects whose "
        "solution set is neither empty nor the whole domain")
ASSUMPTIONS = ["reference semantics ref.py; a sub-object's own blocks apply exactly when it is random in the call",
               "exhaustive enumeration up to 11/14 random bits per call"]
CASE_TIMEOUT = 120
DECIDE = J.VALUE_KINDS | {"spurious-solve-failure", "unsat-returned-normally"}


def plan(tier):
    return {"ncases": 480, "budget_s": 80} if tier == "quick" else {"ncases": 6000, "budget_s": 900}


def gen_case(rng, tier, idx):
    for _ in range(20):
        prog, g = gen.tree_program(rng, max_bits=10 if tier == "quick" else rng.choice([10, 12, 13]),
                                   with_collections=False, deep=rng.random() < 0.5)
        hist = gen.tree_history(g, prog, nops=rng.randint(6, 14), toggles=False, collections=False)
        try:
            gen.validate(prog)
        except Exception:
            continue
        return {"prog": prog, "hist": hist, "seed": rng.randint(1, 1 << 30), "max_points": 1 << (11 if tier == "quick" else 14)}
    return None


def exec_case(spec):
    res = J.judge(spec, DECIDE)
    if res.get("status") == common.INCONC:
        return res
    return J.finish(res, "C08", spec)


def min_observation(tot, status_n, tier):
    if tot.get("calls_ok", 0) < 50:
        return False, "fewer than 50 successful calls"
    if tot.get("hook_batches", 0) == 0:
        return False, "hook monitor observed nothing"
    return True, ""
