"""C20 - solve_order decouples the earlier variable's distribution from the later one.

Monitor: choice-point injection into RandState (M3): the real randomize() is run
once per path of decision points; complete enumerations give the EXACT joint
distribution.  Judged: every feasible value of the earlier variable has
probability > 0; its marginal is uniform whenever its feasible values fill the
range the library inferred for it (bounds read at the hook); the marginal is
identical in two programs that differ only in how many values of the later
variable accompany each value of the earlier one (metamorphic pair); every path
satisfies all constraints; no path of a satisfiable system raises."""
import copy
from fractions import Fraction

from .. import common, gen, ref as R, choice, solvercase as SC
from ..libstate import quiet, reset_lib_state
from ..session import Session, snap_get
from ..findings import classify

LEVEL = "exploration"
RULE = ("case = metamorphic pair of programs with solve_order(a, b) (optionally a before b before c - as a chain of two "
        "statements or as three statements a-b, b-c, a-c in any order -, a and b each before c in two statements [only "
        "starvation of a and b, constraints and exceptions are judged there], a list of earlier "
        "fields, the directive in a block of its own): same own-constraints on a, couplings a-b of different multiplicity "
        "(b<=a, b>=a, b!=a, if a==v: b==k else ..., a==v implies b in {..}, a+b<=max); each program is enumerated "
        "completely over the RandState choice points from a fresh object; non-trivial = both enumerations complete and the "
        "number of b-companions differs between at least two feasible values of a in at least one of the two programs")
ASSUMPTIONS = ["feasibility by exhaustive reference enumeration (ref.py)",
               "only complete choice enumerations are judged (cap 8000 paths / 30 s quick, 100000 paths / 240 s thorough per program)",
               "uniformity is required only when feasible(a) equals the set of values in the range list the library inferred for a"]
CASE_TIMEOUT = 600


def plan(tier):
    return {"ncases": 72, "budget_s": 100} if tier == "quick" else {"ncases": 1600, "budget_s": 1800}


def gen_case(rng, tier, idx):
    for _ in range(30):
        progs = gen.order_pair(rng)
        ok = True
        for p in progs:
            try:
                call = gen.validate(p)
                if not call.enumerate():
                    ok = False
            except Exception:
                ok = False
        if ok:
            return {"progs": progs, "seed": rng.randint(1, 1 << 30),
                    "max_paths": 8000 if tier == "quick" else 100000, "max_seconds": 30 if tier == "quick" else 240}
    return None


def enumerate_program(prog, spec, cnt):
    sess = Session(prog, seed=spec.get("seed", 1))
    sess.new("o0")
    st = copy.deepcopy(sess.state["o0"])
    call = R.Call(prog, st)
    sols = set(call.enumerate())
    o = sess.live["o0"]
    paths = [p for p, _ in call.rand_leaves]
    hk = sess.hook
    first_bounds = {}

    def run(rs):
        for p in paths:
            setattr(o, p[0], 0)
        o.set_randstate(rs)
        hk.start_call()
        try:
            with quiet():
                o.randomize()
        finally:
            recs = hk.end_call()
            if recs and not first_bounds:
                for p in paths:
                    fm = sess.model_at("o0", list(p))
                    if fm is not None and id(fm) in recs[0].bounds:
                        first_bounds[p] = recs[0].bounds[id(fm)]
            hk.release_all()
        return tuple(int(getattr(o, p[0])) for p in paths)
    hk.light = True
    try:
        res = choice.enumerate_paths(run, max_paths=spec["max_paths"], max_seconds=spec["max_seconds"])
    finally:
        hk.light = False
    reset_lib_state()
    cnt.inc("m3_programs")
    cnt.inc("m3_paths", res["paths"])
    return {"res": res, "sols": sols, "paths": paths, "bounds": first_bounds, "call": call}


def judge_program(tag, prog, E, viol, cnt):
    res, sols, paths = E["res"], E["sols"], E["paths"]
    src = SC.source_of({"prog": prog, "hist": []})
    ia = paths.index(("a",))
    if res["abort"] or not res["complete"]:
        cnt.inc("m3_incomplete")
        cnt.inc("incomplete_" + prog.get("topo", "pair"))
        return None
    cnt.inc("m3_complete")
    cnt.inc("complete_" + prog.get("topo", "pair"))
    raised = {k: v for k, v in res["dist"].items() if isinstance(k, tuple) and k and k[0] == "raised"}
    if raised:
        viol.append(("satisfiable-system-failed", "%s: %s of the choice paths of a satisfiable system (|S|=%d) raise %s\n%s" % (
            tag, sum(raised.values()), len(sols), sorted(k[1] for k in raised), src), None))
    bad = [k for k, v in res["dist"].items() if v > 0 and k not in raised and k not in sols]
    if bad:
        viol.append(("constraint-violated-under-order", "%s: outcome %s (fields %s) violates the constraints\n%s" % (
            tag, bad[:3], [".".join(p) for p in paths], src), None))
    marg = {}
    for k, v in res["dist"].items():
        if k in raised:
            continue
        marg[k[ia]] = marg.get(k[ia], Fraction(0)) + v
    feas = sorted(set(s[ia] for s in sols))
    cnt.inc("values_checked", len(feas))
    starved = [v for v in feas if marg.get(v, 0) == 0]
    if starved and not raised:
        viol.append(("earlier-variable-value-starved", "%s: complete enumeration of %d paths: a never takes %s although feasible "
                     "(feasible %s, marginal %s)\n%s" % (tag, res["paths"], starved, feas, {k: str(v) for k, v in sorted(marg.items())}, src),
                     {"starved_field": (("a",), E["call"].rand_leaves[ia][1]), "starved": starved, "feasible": feas,
                      "ranges": E["bounds"].get(("a",))}))
    fanin = prog.get("topo") == "fanin"
    if fanin and not raised:
        # a before c and b before c: b is an earlier variable as well
        ib_ = paths.index(("b",))
        mb = {}
        for k, v in res["dist"].items():
            if k not in raised:
                mb[k[ib_]] = mb.get(k[ib_], Fraction(0)) + v
        feas_b = sorted(set(s[ib_] for s in sols))
        cnt.inc("values_checked", len(feas_b))
        starved_b = [v for v in feas_b if mb.get(v, 0) == 0]
        if starved_b:
            viol.append(("earlier-variable-value-starved", "%s: complete enumeration of %d paths: b never takes %s although feasible "
                         "(feasible %s, marginal %s)\n%s" % (tag, res["paths"], starved_b, feas_b, {k: str(v) for k, v in sorted(mb.items())}, src),
                         {"starved_field": (("b",), E["call"].rand_leaves[ib_][1]), "starved": starved_b, "feasible": feas_b,
                          "ranges": E["bounds"].get(("b",))}))
    rl = E["bounds"].get(("a",))
    fills = False
    if rl and not fanin:
        # (fan-in: a and b are chosen in the same step, so a's marginal may depend on b; only starvation is judged)
        inrange = sorted(v for v in range(0, 1 << 8) if any(lo <= v <= hi for lo, hi in rl))
        fills = (inrange == feas)
    if fills and not raised and not starved:
        cnt.inc("uniformity_checked")
        tot = sum(marg.values())
        if any(marg.get(v) != tot / len(feas) for v in feas):
            viol.append(("marginal-not-uniform", "%s: feasible(a) = %s fills its inferred range %s but the exact marginal is %s\n%s" % (
                tag, feas, rl, {k: str(v) for k, v in sorted(marg.items())}, src), {"ranges": rl, "feasible": feas}))
    # joint marginal of (a, b): in a chain a -> b -> c both are chosen before c
    marg_ab = None
    if ("b",) in paths:
        ib = paths.index(("b",))
        marg_ab = {}
        for k, v in res["dist"].items():
            if k in raised:
                continue
            marg_ab[(k[ia], k[ib])] = marg_ab.get((k[ia], k[ib]), Fraction(0)) + v
    comp = {}
    for s in sols:
        comp[s[ia]] = comp.get(s[ia], 0) + 1
    return {"marg": marg, "feas": feas, "range": rl, "companions": comp, "raised": bool(raised),
            "width": E["call"].rand_leaves[ia][1][1], "marg_ab": marg_ab, "bounds": dict(E["bounds"]),
            "feas_ab": sorted(set((s_[ia], s_[paths.index(("b",))]) for s_ in sols)) if ("b",) in paths else None}


def exec_case(spec):
    cnt = common.Counters()
    viol = []
    out = []
    try:
        for i, prog in enumerate(spec["progs"]):
            E = enumerate_program(prog, spec, cnt)
            out.append(judge_program("program %d" % (i + 1), prog, E, viol, cnt))
    except R.Corner as c:
        reset_lib_state()
        return {"status": common.INCONC, "kind": "corner", "msg": str(c)}
    nontrivial = False
    if all(o is not None for o in out):
        a, b = out
        nontrivial = any(len(set(o["companions"].values())) > 1 for o in out)
        if spec["progs"][0].get("topo") == "fanin":
            cnt.inc("fanin_pairs")
        elif a["feas"] == b["feas"] and a["range"] == b["range"] and not a["raised"] and not b["raised"]:
            cnt.inc("pairs_compared")
            if a["marg"] != b["marg"]:
                viol.append(("marginal-depends-on-later-variable",
                             "the marginal of a differs between two programs that differ only in the a-b coupling: %s (companions %s) vs %s "
                             "(companions %s); feasible(a)=%s inferred range %s\n--- program 1\n%s\n--- program 2\n%s" % (
                                 {k: str(v) for k, v in sorted(a["marg"].items())}, a["companions"],
                                 {k: str(v) for k, v in sorted(b["marg"].items())}, b["companions"], a["feas"], a["range"],
                                 SC.source_of({"prog": spec["progs"][0], "hist": []}), SC.source_of({"prog": spec["progs"][1], "hist": []})),
                             {"ranges": a["range"], "feasible": a["feas"], "width": a["width"]}))
        else:
            cnt.inc("pairs_skipped")
        # chain a -> b -> c where only the b-c coupling differs: (a, b) are both chosen before c, so their joint
        # distribution must not depend on how many values of c accompany each (a, b)
        if (spec["progs"][0].get("vary") == "bc" and a["marg_ab"] is not None and b["marg_ab"] is not None
                and a["feas_ab"] == b["feas_ab"] and a["bounds"] == b["bounds"] and not a["raised"] and not b["raised"]):
            cnt.inc("chain_pairs_compared")
            if a["marg_ab"] != b["marg_ab"]:
                viol.append(("marginal-depends-on-later-variable",
                             "chain a -> b -> c: the joint distribution of (a, b) differs between two programs that differ only in the b-c "
                             "coupling: %s vs %s\n--- program 1\n%s\n--- program 2\n%s" % (
                                 {str(k): str(v) for k, v in sorted(a["marg_ab"].items())},
                                 {str(k): str(v) for k, v in sorted(b["marg_ab"].items())},
                                 SC.source_of({"prog": spec["progs"][0], "hist": []}), SC.source_of({"prog": spec["progs"][1], "hist": []})),
                             {"ranges": a["bounds"].get(("b",)), "feasible": sorted(set(x[1] for x in a["feas_ab"])),
                              "width": [fd["w"] for fd in spec["progs"][0]["classes"]["C0"]["fields"] if fd["n"] == "b"][0], "chain": True}))
    res = {"counters": dict(cnt), "nontrivial": nontrivial,
           "source": "\n--- partner\n".join(SC.source_of({"prog": p, "hist": []}) for p in spec["progs"])}
    if viol:
        res.update(status=common.VIOL, kind=viol[0][0], msg=" || ".join(v[1] for v in viol[:2]))
        res["finding"] = classify("C20", spec, viol, None)
    else:
        res["status"] = common.HELD if cnt.get("m3_complete") else common.NOOBS
    return res


def min_observation(tot, status_n, tier):
    if tot.get("m3_complete", 0) < 50:
        return False, "fewer than 50 complete choice enumerations"
    if tot.get("pairs_compared", 0) < 20:
        return False, "fewer than 20 metamorphic pairs compared"
    if tot.get("uniformity_checked", 0) < 20:
        return False, "uniformity was judged on fewer than 20 programs"
    return True, ""
