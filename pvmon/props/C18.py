"""C18 - field values stay within their declared type on every access path.

Monitor: arithmetic reference wrap(v, width, signed) compared with every read
path after every write path, on the real field objects.  Exhaustive over all
values in [-2^(w+1), 2^(w+1)] for the small widths, sampled (boundaries +-1,
random) for widths up to 64."""
import enum

from .. import common
from ..libstate import import_vsc, reset_lib_state, raised_in_library

LEVEL = "exploration"
RULE = ("case = (family, width, signedness); every case enumerates values x write paths x read paths on live "
        "pyvsc fields; an input is non-trivial when the written value lies outside the declared type (so "
        "wrapping/re-interpretation is really exercised), or is a part-select with hi>lo; distinct by "
        "(family,width,signed,value[,hi,lo])")
ASSUMPTIONS = [
    "reference semantics: value mod 2^width, two's complement re-interpretation for signed types",
    "fields are read through the documented paths only (attribute, get_val(), .val, list index, iteration)",
]
CASE_TIMEOUT = 600

FAMILIES = ["scalar", "list", "partsel", "enum", "ctor", "postrand"]


def plan(tier):
    return {"ncases": len(_cases(tier)), "budget_s": 240 if tier == "quick" else 1500}


def _cases(tier):
    cs = []
    exh = range(1, 9) if tier == "quick" else range(1, 11)
    for fam in ("scalar", "list", "ctor"):
        for w in exh:
            for s in (False, True):
                cs.append({"family": fam, "w": w, "signed": s, "mode": "exhaustive"})
    wide = [11, 12, 15, 16, 17, 31, 32, 33, 48, 63, 64] if tier == "quick" else list(range(11, 65))
    for fam in ("scalar", "list", "ctor"):
        for w in wide:
            for s in (False, True):
                cs.append({"family": fam, "w": w, "signed": s, "mode": "sampled"})
    for w in (range(1, 8) if tier == "quick" else range(1, 10)):
        for s in (False, True):
            cs.append({"family": "partsel", "w": w, "signed": s, "mode": "exhaustive"})
    for w in ([8, 13, 32, 64] if tier == "quick" else [10, 11, 13, 16, 24, 32, 33, 48, 63, 64]):
        for s in (False, True):
            cs.append({"family": "partsel", "w": w, "signed": s, "mode": "sampled"})
    for k in range(4 if tier == "quick" else 12):
        cs.append({"family": "enum", "variant": k})
    # values written by the SOLVER (randomize pins every value of the type), then read through every path
    for w in ([1, 2, 3, 4, 5, 8, 16, 32, 64] if tier == "quick" else [1, 2, 3, 4, 5, 6, 7, 8, 12, 16, 24, 31, 32, 33, 48, 63, 64]):
        for s in (False, True):
            cs.append({"family": "postrand", "w": w, "signed": s, "mode": "exhaustive" if w <= 5 else "sampled"})
    return cs


def gen_case(rng, tier, idx):
    cs = _cases(tier)
    c = dict(cs[idx % len(cs)])
    c["rseed"] = rng.getrandbits(32)
    return c


def wrap(v, w, s):
    v &= (1 << w) - 1
    if s and v >> (w - 1):
        v -= 1 << w
    return v


def _values(spec):
    import random
    w = spec["w"]
    if spec["mode"] == "exhaustive":
        return list(range(-(1 << (w + 1)), (1 << (w + 1)) + 1))
    r = random.Random(spec["rseed"])
    vs = set()
    for b in (0, 1 << (w - 1), 1 << w, (1 << w) - 1, 1 << (w + 1), -(1 << (w - 1)), -(1 << w), (1 << 64), (1 << 65) - 1):
        for d in (-2, -1, 0, 1, 2):
            vs.add(b + d)
            vs.add(-(b + d))
    for _ in range(300):
        vs.add(r.randint(-(1 << (w + 2)), 1 << (w + 2)))
        vs.add(r.getrandbits(w))
    return sorted(vs)


class Mon:
    def __init__(self, spec):
        self.spec = spec
        self.n = 0
        self.nontrivial = 0
        self.bad = []

    def check(self, what, got, exp, **ctx):
        self.n += 1
        if type(got) is bool:
            got = int(got)
        try:
            ok = (int(got) == exp)
        except Exception:
            ok = False
        if not ok and len(self.bad) < 8:
            self.bad.append("%s: read %r, expected %r %s" % (what, got, exp, ctx))
        return ok


def _scalar(vsc, spec, mon):
    w, s = spec["w"], spec["signed"]
    T = {(False, False): vsc.bit_t, (False, True): vsc.int_t}
    TR = {(False, False): vsc.rand_bit_t, (False, True): vsc.rand_int_t}

    @vsc.randobj
    class C(object):
        def __init__(self):
            self.f = T[(False, s)](w)
            self.r = TR[(False, s)](w)

    o = C()
    with vsc.raw_mode():
        fos = {"f": o.f, "r": o.r}
    lone = T[(False, s)](w)  # free-standing field, no enclosing object
    for v in _values(spec):
        exp = wrap(v, w, s)
        if exp != v:
            mon.nontrivial += 1
        for name in ("f", "r"):
            fo = fos[name]
            for wp in ("attr", "set_val", "val"):
                # poison with a different legal value first so a dropped write is visible
                fo.set_val(0 if exp != 0 else 1)
                if wp == "attr":
                    setattr(o, name, v)
                elif wp == "set_val":
                    fo.set_val(v)
                else:
                    fo.val = v
                mon.check("%s.%s<-%s attr" % (name, wp, v), getattr(o, name), exp, w=w, signed=s)
                mon.check("%s.%s<-%s get_val" % (name, wp, v), fo.get_val(), exp, w=w, signed=s)
                mon.check("%s.%s<-%s .val" % (name, wp, v), fo.val, exp, w=w, signed=s)
        for wp in ("set_val", "val"):
            lone.set_val(0 if exp != 0 else 1)
            if wp == "set_val":
                lone.set_val(v)
            else:
                lone.val = v
            mon.check("lone.%s<-%s get_val" % (wp, v), lone.get_val(), exp, w=w, signed=s)
            mon.check("lone.%s<-%s .val" % (wp, v), lone.val, exp, w=w, signed=s)


def _ctor(vsc, spec, mon):
    w, s = spec["w"], spec["signed"]
    mk = (vsc.int_t if s else vsc.bit_t)
    mkr = (vsc.rand_int_t if s else vsc.rand_bit_t)

    @vsc.randobj
    class C(object):
        def __init__(self, v):
            self.f = mk(w, i=v)
            self.r = mkr(w, i=v)

    vals = _values(spec)
    if spec["mode"] == "exhaustive" and w > 6:
        # constructing an object per value: keep every value of the doubled range for w<=6, else stride + boundaries
        keep = set(vals[::7]) | {x for x in vals if abs(abs(x) - (1 << (w - 1))) <= 2 or abs(abs(x) - (1 << w)) <= 2 or abs(x) <= 2}
        vals = sorted(keep)
    for v in vals:
        exp = wrap(v, w, s)
        if exp != v:
            mon.nontrivial += 1
        o = C(v)
        with vsc.raw_mode():
            fo, ro = o.f, o.r
        mon.check("ctor i=%s attr f" % v, o.f, exp, w=w, signed=s)
        mon.check("ctor i=%s get_val f" % v, fo.get_val(), exp, w=w, signed=s)
        mon.check("ctor i=%s attr r" % v, o.r, exp, w=w, signed=s)
        mon.check("ctor i=%s .val r" % v, ro.val, exp, w=w, signed=s)
        lone = mk(w, i=v)
        mon.check("lone ctor i=%s get_val" % v, lone.get_val(), exp, w=w, signed=s)


def _list(vsc, spec, mon):
    w, s = spec["w"], spec["signed"]
    mk = (vsc.int_t if s else vsc.bit_t)

    @vsc.randobj
    class C(object):
        def __init__(self):
            self.l = vsc.list_t(mk(w))
            self.rl = vsc.rand_list_t(mk(w), sz=2)

    o = C()
    vals = _values(spec)

    def readback(l, exps, how):
        mon.check("%s len" % how, len(l), len(exps))
        mon.check("%s size" % how, l.size, len(exps))
        it = list(l)
        mon.check("%s iter-len" % how, len(it), len(exps))
        for i, e in enumerate(exps):
            if i < len(it):
                mon.check("%s iter[%d]" % (how, i), it[i], e, w=w, signed=s)
            try:
                g = l[i]
            except Exception as ex:  # noqa
                g = "raised %r" % ex
            mon.check("%s index[%d]" % (how, i), g, e, w=w, signed=s)

    CH = 16
    for name in ("l", "rl"):
        with vsc.raw_mode():
            lo = getattr(o, name)
        for k in range(0, len(vals), CH):
            chunk = vals[k:k + CH]
            exps = [wrap(v, w, s) for v in chunk]
            mon.nontrivial += sum(1 for v, e in zip(chunk, exps) if v != e)
            # append
            lo.clear()
            for v in chunk:
                lo.append(v)
            readback(lo, exps, "%s.append" % name)
            # extend
            lo.clear()
            lo.extend(chunk)
            readback(lo, exps, "%s.extend" % name)
            # attribute assignment of a whole list
            setattr(o, name, list(reversed(chunk)))
            readback(lo, list(reversed(exps)), "%s.assign" % name)
            # index assignment over the existing elements, in forward order again
            for i, v in enumerate(chunk):
                lo[i] = v
            readback(lo, exps, "%s.setitem" % name)
            # clear really empties
            lo.clear()
            readback(lo, [], "%s.clear" % name)
    # init= at construction
    chunk = vals[:: max(1, len(vals) // 24)]

    @vsc.randobj
    class D(object):
        def __init__(self):
            self.l = vsc.list_t(mk(w), init=chunk)

    d = D()
    with vsc.raw_mode():
        dl = d.l
    readback(dl, [wrap(v, w, s) for v in chunk], "init=")


def _partsel(vsc, spec, mon):
    import random
    w, s = spec["w"], spec["signed"]
    mk = (vsc.int_t if s else vsc.bit_t)

    @vsc.randobj
    class C(object):
        def __init__(self):
            self.f = mk(w)

    o = C()
    with vsc.raw_mode():
        fo = o.f
    r = random.Random(spec["rseed"])
    full = (1 << w) - 1
    if spec["mode"] == "exhaustive":
        currs = list(range(0, 1 << w))
        sels = [(hi, lo) for hi in range(w) for lo in range(hi + 1)]
    else:
        currs = [0, full, 1 << (w - 1), (1 << (w - 1)) - 1] + [r.getrandbits(w) for _ in range(40)]
        sels = [(w - 1, 0), (w - 1, w - 1), (0, 0), (w - 1, 1), (w - 2, 0)] + \
               [tuple(sorted((r.randrange(w), r.randrange(w)), reverse=True)) for _ in range(25)]
    for cu in currs:
        cexp = wrap(cu, w, s)
        for hi, lo in sels:
            n = hi - lo + 1
            m = ((1 << n) - 1) << lo
            if hi > lo:
                mon.nontrivial += 1
            fo.set_val(cu)
            mon.check("read [%d:%d] of %d" % (hi, lo, cexp), fo[hi:lo], (cu & m) >> lo, w=w, signed=s)
            if hi == lo:
                mon.check("read bit [%d] of %d" % (hi, cexp), fo[hi], (cu >> hi) & 1, w=w, signed=s)
            if spec["mode"] == "exhaustive" and n <= 4:
                wvals = list(range(0, 1 << n)) + [1 << n, (1 << n) + 1, (1 << (n + 1)) - 1]
            else:
                wvals = [0, (1 << n) - 1, 1, r.getrandbits(n), r.getrandbits(n), (1 << n) | r.getrandbits(n)]
            for v in wvals:
                fo.set_val(cu)
                fo[hi:lo] = v
                exp = wrap((cu & ~m & full) | ((v << lo) & m), w, s)
                mon.check("write [%d:%d]=%d on %d" % (hi, lo, v, cexp), fo.get_val(), exp, w=w, signed=s)
                mon.check("write [%d:%d]=%d on %d (attr)" % (hi, lo, v, cexp), o.f, exp, w=w, signed=s)
            if hi == lo:
                for v in (0, 1):
                    fo.set_val(cu)
                    fo[hi] = v
                    exp = wrap((cu & ~(1 << hi) & full) | (v << hi), w, s)
                    mon.check("write bit [%d]=%d on %d" % (hi, v, cexp), fo.get_val(), exp, w=w, signed=s)


def _postrand(vsc, spec, mon):
    import random
    w, s = spec["w"], spec["signed"]
    mk = (vsc.int_t if s else vsc.bit_t)
    mkr = (vsc.rand_int_t if s else vsc.rand_bit_t)

    @vsc.randobj
    class C(object):
        def __init__(self):
            self.r = mkr(w)
            self.rl = vsc.rand_list_t(mk(w), sz=2)
            self.rz = vsc.randsz_list_t(mk(w))
            self.nl = vsc.list_t(mk(w), sz=1)
            self.k = mk(w)           # not random: enters the problem as a constant of the solver
            self.kr = mkr(w)         # random by declaration, rand_mode switched off below
            self.q = mkr(w)

        @vsc.constraint
        def c(self):
            self.rz.size == 1
            # k and kr are named by constraints, so their values pass through the solver as constants
            (self.q == self.k) | (self.q != self.k)
            (self.q == self.kr) | (self.q != self.kr)

    o = C()
    with vsc.raw_mode():
        fr, frl, frz, fnl = o.r, o.rl, o.rz, o.nl
        fk, fkr = o.k, o.kr
        o.kr.rand_mode = False
    lo, hi = (-(1 << (w - 1)), (1 << (w - 1)) - 1) if s else (0, (1 << w) - 1)
    if spec["mode"] == "exhaustive":
        vals = list(range(lo, hi + 1))
    else:
        r = random.Random(spec["rseed"])
        vals = sorted(set([lo, lo + 1, -1 if s else hi, 0, 1, hi - 1, hi] + [r.randint(lo, hi) for _ in range(12)]))
    lit = (lambda v: vsc.signed(v, w)) if s else (lambda v: vsc.unsigned(v, w))
    for v in vals:
        if v < 0 or v > (hi >> 1):
            mon.nontrivial += 1
        v2 = vals[(vals.index(v) * 7 + 3) % len(vals)]
        fnl[0] = v2
        o.k = v
        o.kr = v2
        with o.randomize_with() as it:
            it.r == lit(v)
            it.rl[0] == lit(v)
            it.rl[1] == lit(v2)
            it.rz[0] == lit(v)
        mon.check("solver r=%s attr" % v, o.r, v, w=w, signed=s)
        mon.check("solver r=%s get_val" % v, fr.get_val(), v, w=w, signed=s)
        mon.check("solver r=%s .val" % v, fr.val, v, w=w, signed=s)
        mon.check("constant k=%s attr after the call" % v, o.k, v, w=w, signed=s)
        mon.check("constant k=%s get_val after the call" % v, fk.get_val(), v, w=w, signed=s)
        mon.check("rand_mode-off kr=%s attr after the call" % v2, o.kr, v2, w=w, signed=s)
        mon.check("rand_mode-off kr=%s get_val after the call" % v2, fkr.get_val(), v2, w=w, signed=s)
        for name, l, exp in (("rl", frl, [v, v2]), ("rz", frz, [v]), ("nl", fnl, [v2])):
            it_ = list(l)
            mon.check("solver %s len" % name, len(l), len(exp))
            mon.check("solver %s iter-len" % name, len(it_), len(exp))
            for i, e in enumerate(exp):
                if i < len(it_):
                    mon.check("solver %s=%s iter[%d]" % (name, exp, i), it_[i], e, w=w, signed=s)
                try:
                    g = l[i]
                except Exception as ex:  # noqa
                    g = "raised %r" % ex
                mon.check("solver %s=%s index[%d]" % (name, exp, i), g, e, w=w, signed=s)


def _enum(vsc, spec, mon):
    import random
    r = random.Random(spec["rseed"] ^ spec["variant"])
    k = spec["variant"]
    n = r.randint(2, 7)
    if k % 2 == 0:
        vals = r.sample(range(-20, 200), n)
        E = enum.IntEnum("E%d" % k, {"m%d" % i: v for i, v in enumerate(vals)})
    else:
        E = enum.Enum("E%d" % k, {"m%d" % i: i + 1 for i in range(n)})
    members = list(E)

    @vsc.randobj
    class C(object):
        def __init__(self):
            self.e = vsc.enum_t(E)
            self.r = vsc.rand_enum_t(E)
            self.l = vsc.list_t(vsc.enum_t(E))

    o = C()
    with vsc.raw_mode():
        fe, fr, fl = o.e, o.r, o.l
    for m in members * 3:
        mon.nontrivial += 1
        for name, fo in (("e", fe), ("r", fr)):
            setattr(o, name, m)
            got = getattr(o, name)
            mon.check("enum %s attr" % name, 1 if (got is m) else 0, 1, seen=repr(got), want=repr(m))
            other = members[(members.index(m) + 1) % len(members)]
            fo.set_val(other)
            got = fo.get_val()
            mon.check("enum %s set_val/get_val" % name, 1 if (got is other) else 0, 1, seen=repr(got), want=repr(other))
            got = getattr(o, name)
            mon.check("enum %s set_val/attr" % name, 1 if (got is other) else 0, 1, seen=repr(got), want=repr(other))
    seq = [r.choice(members) for _ in range(12)]
    fl.clear()
    for m in seq:
        fl.append(m)
    mon.check("enum list len", len(fl), len(seq))
    for i, m in enumerate(seq):
        got = fl[i]
        mon.check("enum list[%d]" % i, 1 if got is m else 0, 1, seen=repr(got), want=repr(m))
    for i, m in enumerate(reversed(seq)):
        fl[i] = m
    for i, m in enumerate(reversed(seq)):
        got = fl[i]
        mon.check("enum list setitem[%d]" % i, 1 if got is m else 0, 1, seen=repr(got), want=repr(m))
    # randomizing must keep declared enumerators
    for _ in range(20):
        o.randomize()
        got = o.r
        mon.check("rand enum is enumerator", 1 if (isinstance(got, E) and got in members) else 0, 1, seen=repr(got))
        got = o.e
        mon.check("non-rand enum unchanged enumerator", 1 if isinstance(got, E) else 0, 1, seen=repr(got))


def exec_case(spec):
    vsc = import_vsc()
    mon = Mon(spec)
    fam = spec["family"]
    try:
        {"scalar": _scalar, "list": _list, "partsel": _partsel, "enum": _enum, "ctor": _ctor,
         "postrand": _postrand}[fam](vsc, spec, mon)
    except Exception as e:
        import traceback
        reset_lib_state()
        if not raised_in_library(e):
            raise
        return {"status": common.VIOL, "kind": "exception-on-access-path",
                "msg": "%s family raised %r: %s" % (fam, e, traceback.format_exc()[-600:]),
                "counters": {"reads_checked": mon.n}, "nontrivial": False}
    res = {"counters": {"reads_checked": mon.n, "nontrivial_inputs": mon.nontrivial, "fam_" + fam: 1},
           "nontrivial": mon.nontrivial > 0,
           "source": "%s w=%s signed=%s mode=%s: %d reads compared, %d non-trivial inputs" % (
               fam, spec.get("w"), spec.get("signed"), spec.get("mode"), mon.n, mon.nontrivial)}
    if mon.bad:
        res.update(status=common.VIOL, kind="value-mismatch:" + fam, msg="; ".join(mon.bad[:4]))
    else:
        res["status"] = common.HELD
    return res


def min_observation(tot, status_n, tier):
    if tot.get("reads_checked", 0) < 10000:
        return False, "fewer than 10000 reads compared"
    for f in FAMILIES:
        if not tot.get("fam_" + f):
            return False, "family %s never ran" % f
    return True, ""


def extra_coverage(tot, results, tier):
    return {"evaluations": int(tot.get("reads_checked", 0)),
            "distinct_nontrivial": int(tot.get("nontrivial_inputs", 0)),
            "exhaustive_part": "all values in [-2^(w+1), 2^(w+1)] for widths 1..%d, both signednesses, all write x read paths; "
                               "all (hi,lo) x all current values for part-selects of widths 1..%d" % (
                                   (8, 7) if tier == "quick" else (10, 9))}
