"""C02 - SolveFailure is raised exactly when the hard constraints are unsatisfiable.

Oracle: exhaustive reference enumeration of the call's random fields (S_ref);
refuting events: S_ref non-empty and the call raised anything; S_ref empty and
the call returned; any exception other than SolveFailure from inside the
library on a legal program.  M2 gives the same answer from the inside (hard
formula UNSAT on the solver clone <=> S_ref empty)."""
from .. import common, gen, solvercase as SC, oracle as O, ref as R
from ..libstate import reset_lib_state
from ..findings import classify

LEVEL = "exploration"
RULE = ("case = generated constraint program + history of 3-6 calls of all four call kinds, half of the cases with "
        "solve_fail_debug on one call; non-trivial = the history contains at least one satisfiable call whose "
        "solution set is not the whole domain or at least one unsatisfiable call; distinct by canonical hash")
ASSUMPTIONS = [
    "satisfiability decided by exhaustive reference enumeration over <= 10 (quick) / 14 (thorough) random bits",
    "only programs inside the validated input language are judged (ref.Corner => not judged)",
]
CASE_TIMEOUT = 120


def plan(tier):
    if tier == "quick":
        return {"ncases": 640, "budget_s": 75}
    return {"ncases": 9000, "budget_s": 900}


def gen_case(rng, tier, idx):
    max_bits = 10 if tier == "quick" else rng.choice([8, 10, 12, 14])
    for _ in range(20):
        prog, g = gen.scalar_program(rng, max_bits=max_bits)
        try:
            gen.validate(prog)
        except Exception:
            continue
        hist = gen.history(g, prog, ncalls=rng.randint(3, 6))
        if rng.random() < 0.5:
            calls = [h for h in hist if h["op"] in ("randomize", "with", "free")]
            rng.choice(calls)["solve_fail_debug"] = 1
        return {"prog": prog, "hist": hist, "seed": rng.randint(1, 1 << 30),
                "max_points": 1 << (10 if tier == "quick" else 14)}
    return None


def exec_case(spec):
    cnt = common.Counters()
    viol = []
    nontrivial = False
    try:
        sess, evs = SC.run(spec)
    except R.Corner as c:
        reset_lib_state()
        return {"status": common.INCONC, "kind": "corner-at-build", "msg": str(c)}
    for ev in evs:
        if not SC.is_call(ev):
            continue
        cnt.inc("calls")
        call = ev.get("call")
        if call is None:
            cnt.inc("corner_calls")
            continue
        try:
            if call.domain_size() > spec.get("max_points", 1024):
                cnt.inc("too_large")
                continue
            sols = call.enumerate(limit=spec.get("max_points", 1024))
        except R.Corner:
            cnt.inc("corner_calls")
            continue
        head = SC.src_op(ev["op"]).split("\n")[0]
        sat = len(sols) > 0
        cnt.inc("sat_calls_ref" if sat else "unsat_calls_ref")
        if not sat or len(sols) < call.domain_size():
            nontrivial = True
        oc = ev["outcome"]
        if oc == "ok":
            if not sat:
                viol.append(("unsat-returned-normally", "%s returned values %s although no assignment satisfies the constraints" % (
                    head, O.post_env(call, ev["post"]))))
            else:
                cnt.inc("agree_sat")
        elif oc == "SolveFailure":
            if sat:
                viol.append(("spurious-solve-failure", "%s raised SolveFailure although %d of %d assignments satisfy the constraints, e.g. %s" % (
                    head, len(sols), call.domain_size(), dict(zip([".".join(map(str, p)) for p, _ in call.rand_leaves], sols[0])))))
            else:
                cnt.inc("agree_unsat")
        else:
            viol.append(("other-exception", "%s raised %s (%s) %s" % (head, ev.get("exc_type"), ev.get("exc_msg"),
                                                                      "[satisfiable]" if sat else "[unsatisfiable]")))
            ev_tb = ev.get("exc_tb", "")
            viol[-1] = (viol[-1][0], viol[-1][1] + " || " + ev_tb[-400:])
        # from the inside: hard formula satisfiable on the clone <=> S_ref non-empty
        recs = ev.get("records") or []
        if len(recs) == 1 and recs[0].batches:
            cnt.inc("hook_calls")
            try:
                lib_sat = all(b.hard_sat() for b in recs[0].batches)
                # a failing batch stops the library before later batches are built: only "all built batches SAT"
                # with every rand set built is comparable
                if len(recs[0].batches) and not lib_sat and sat:
                    viol.append(("formula-unsat-but-ref-sat", "%s: a solver batch is UNSAT although the reference has solutions" % head))
                if lib_sat and not sat and recs[0].solved == len(recs[0].batches) and oc == "ok":
                    pass  # already reported as unsat-returned-normally
            except Exception:
                cnt.inc("hook_errors")
    SC.release(evs)
    res = {"counters": dict(cnt), "nontrivial": nontrivial, "source": SC.source_of(spec)}
    if viol:
        res.update(status=common.VIOL, kind=viol[0][0], msg=" || ".join(v[1] for v in viol[:3]))
        res["finding"] = classify("C02", spec, viol, evs)
    else:
        res["status"] = common.HELD if (cnt.get("agree_sat") or cnt.get("agree_unsat")) else common.NOOBS
    return res


def min_observation(tot, status_n, tier):
    if tot.get("agree_sat", 0) < 50 or tot.get("agree_unsat", 0) < 20:
        return False, "too few satisfiable (%d) or unsatisfiable (%d) calls judged" % (tot.get("agree_sat", 0), tot.get("agree_unsat", 0))
    if tot.get("hook_calls", 0) == 0:
        return False, "hook monitor observed nothing"
    return True, ""
