"""C02 - SolveFailure is raised exactly when the hard constraints are unsatisfiable.

Oracle: exhaustive reference enumeration of the call's random fields (S_ref);
refuting events: S_ref non-empty and the call raised anything; S_ref empty and
the call returned; any exception other than SolveFailure from inside the
library on a legal program.  M2 gives the same answer from the inside (hard
formula UNSAT on the solver clone <=> S_ref empty)."""
from .. import common, gen, judge as J, ref as R
from ..libstate import reset_lib_state
from ..findings import classify

LEVEL = "exploration"
RULE = ("case = generated constraint program + history of 3-6 calls of all four call kinds, half of the cases with "
        "solve_fail_debug on one call; non-trivial = the history contains at least one satisfiable call whose "
        "solution set is not the whole domain or at least one unsatisfiable call; distinct by canonical hash")
ASSUMPTIONS = [
    "satisfiability decided by exhaustive reference enumeration over <= 10 (quick) / 14 (thorough) random bits",
    "only programs inside the validated input language are judged (ref.Corner => not judged)",
]
CASE_TIMEOUT = 120


def plan(tier):
    if tier == "quick":
        return {"ncases": 960, "budget_s": 80}
    return {"ncases": 9000, "budget_s": 900}


def gen_case(rng, tier, idx):
    if idx % 5 == 4:
        # wide class: widths up to 64, known satisfiable through a planted witness; judged by reference evaluation of the
        # returned values, the planted SAT label and pointwise comparison on sampled points around witness and solution
        for _ in range(20):
            try:
                prog, g, wit = gen.wide_program(rng)
                gen.validate(prog)
            except Exception:
                continue
            hist = [{"op": "randomize", "o": "o0"} for _k in range(rng.randint(2, 4))]
            scope = gen.scope_of(prog, "C0")
            for _k in range(rng.randint(0, 2)):
                st = [s for s in [g.stmt(scope, depth=1, sdepth=0, allow=("e",))] if s]
                if st:
                    hist.insert(rng.randrange(len(hist) + 1), {"op": "with", "o": "o0", "inline": st})
            return {"prog": prog, "hist": hist, "seed": rng.randint(1, 1 << 30), "max_points": 1024, "wide": True, "witness": wit}
        return None
    if idx % 5 in (2, 3):
        # other program families: object trees, class hierarchies with toggled blocks, dist, soft, dynamic constraints
        fam = rng.choice(["tree", "hier", "dist", "soft", "dyn", "list"]) if idx % 5 == 2 else "list"
        for _ in range(20):
            try:
                if fam == "tree":
                    prog, g = gen.tree_program(rng, max_bits=10, with_collections=rng.random() < 0.4, deep=rng.random() < 0.4)
                    hist = gen.tree_history(g, prog, nops=rng.randint(6, 12))
                elif fam == "hier":
                    prog, g = gen.hierarchy_program(rng, max_bits=9)
                    gen.plant(prog, g)
                    hist = gen.hierarchy_history(g, prog, nops=rng.randint(8, 14))
                    prog = {k: v for k, v in prog.items() if not k.startswith("_")}
                elif fam == "dist":
                    prog, g = gen.dist_program(rng, pure=False)
                    hist = gen.dist_history(g, prog, ncalls=rng.randint(2, 5))
                elif fam == "soft":
                    prog, g = gen.soft_program(rng, max_bits=9)
                    if prog is None:
                        continue
                    hist = gen.soft_history(g, prog, ncalls=rng.randint(3, 5))
                elif fam == "dyn":
                    prog, g = gen.dyn_program(rng, max_bits=9)
                    # single instance only: the multi-instance dynamic-reference defect (F10) belongs to C06
                    hist = [op for op in gen.dyn_history(g, prog, nops=rng.randint(6, 10)) if op["op"] != "new" and op.get("o", "o0") == "o0"]
                    prog = {k: v for k, v in prog.items() if not k.startswith("_")}
                else:
                    prog, g = gen.list_program(rng)
                    hist = gen.list_history(g, prog, ncalls=rng.randint(3, 5))
                    prog = {k: v for k, v in prog.items() if not k.startswith("_")}
                gen.validate(prog)
            except Exception:
                continue
            calls = [h for h in hist if h["op"] in ("randomize", "with", "free")]
            if calls and rng.random() < 0.4:
                rng.choice(calls)["solve_fail_debug"] = 1
            return {"prog": prog, "hist": hist, "seed": rng.randint(1, 1 << 30), "max_points": 1 << (11 if tier == "quick" else 14), "family": fam}
        return None
    max_bits = 10 if tier == "quick" else rng.choice([8, 10, 12, 14])
    for _ in range(20):
        prog, g = gen.scalar_program(rng, max_bits=max_bits)
        try:
            gen.validate(prog)
        except Exception:
            continue
        hist = gen.history(g, prog, ncalls=rng.randint(3, 6))
        if rng.random() < 0.5:
            calls = [h for h in hist if h["op"] in ("randomize", "with", "free")]
            rng.choice(calls)["solve_fail_debug"] = 1
        return {"prog": prog, "hist": hist, "seed": rng.randint(1, 1 << 30),
                "max_points": 1 << (10 if tier == "quick" else 14)}
    return None


def exec_case(spec):
    res = J.judge(spec, J.OUTCOME_KINDS)
    if res.get("status") == common.INCONC:
        return res
    return J.finish(res, "C02", spec, observed_key="calls")


def min_observation(tot, status_n, tier):
    if tot.get("agree_sat", 0) < 50 or tot.get("agree_unsat", 0) < 20:
        return False, "too few satisfiable (%d) or unsatisfiable (%d) calls judged" % (tot.get("agree_sat", 0), tot.get("agree_unsat", 0))
    if tot.get("hook_batches", 0) == 0:
        return False, "hook monitor observed nothing"
    return True, ""
