"""C01 - returned values satisfy every active hard constraint and their type.

Monitors: M1 (API-boundary recorder + reference evaluation of every active hard
statement on the values read after the call) and M2 (solver-formula monitor at
the guarded hook: pointwise equivalence of the library's lowered formula with
the exhaustively enumerated reference solution set)."""
from .. import common, gen, solvercase as SC, oracle as O, ref as R
from ..libstate import reset_lib_state

LEVEL = "exploration"
RULE = ("case = generated constraint program (typed, sign-homogeneous nesting) + history of 3-6 calls "
        "(randomize / randomize_with / vsc.randomize / vsc.randomize_with) with fresh non-random values in "
        "between; non-trivial = at least one call whose reference solution set is neither empty nor the whole "
        "domain; distinct by canonical hash of program+history")
ASSUMPTIONS = [
    "reference semantics ref.py (SystemVerilog-style context width/signedness) on the validated input language; "
    "constructs where that meaning is contestable raise Corner and are not judged",
    "pointwise equivalence is exhaustive only for calls whose random fields total <= 10 (quick) / 14 (thorough) bits",
]
CASE_TIMEOUT = 120


def plan(tier):
    if tier == "quick":
        return {"ncases": 640, "budget_s": 75}
    return {"ncases": 9000, "budget_s": 900}


def gen_case(rng, tier, idx):
    max_bits = 10 if tier == "quick" else rng.choice([8, 10, 12, 14])
    for _ in range(20):
        prog, g = gen.scalar_program(rng, max_bits=max_bits)
        try:
            gen.validate(prog)
        except R.Corner:
            continue
        except Exception:
            continue
        hist = gen.history(g, prog, ncalls=rng.randint(3, 6) if tier == "quick" else rng.randint(3, 10))
        return {"prog": prog, "hist": hist, "seed": rng.randint(1, 1 << 30),
                "max_points": 1 << (10 if tier == "quick" else 14)}
    return None


def exec_case(spec):
    cnt = common.Counters()
    viol = []
    nontrivial = False
    try:
        sess, evs = SC.run(spec)
    except R.Corner as c:
        reset_lib_state()
        return {"status": common.INCONC, "kind": "corner-at-build", "msg": str(c)}
    for ev in evs:
        if not SC.is_call(ev):
            continue
        cnt.inc("calls")
        call = ev.get("call")
        if call is None:
            cnt.inc("corner_calls")
            continue
        try:
            sols = call.enumerate(limit=spec.get("max_points", 1024)) if call.domain_size() <= spec.get("max_points", 1024) else None
        except R.Corner:
            cnt.inc("corner_calls")
            continue
        if sols is not None and 0 < len(sols) < call.domain_size():
            nontrivial = True
        if ev["outcome"] == "ok":
            cnt.inc("calls_ok")
            try:
                bad_t = O.check_type(call, ev["post"], sess.prog)
                bad_v = O.check_values(call, ev["post"])
            except R.Corner:
                cnt.inc("corner_calls")
                continue
            for p, v, why in bad_t:
                viol.append(("value-outside-type", "%s = %r %s" % (".".join(map(str, p)), v, why)))
            for org, s in bad_v:
                viol.append(("value-violates-constraint", "after %s: %s violated in %s; values %s" % (
                    SC.src_op(ev["op"]).split("\n")[0], s, org, O.post_env(call, ev["post"]))))
        else:
            cnt.inc("calls_raised")
        # M2 whenever the hook saw the call, whatever its outcome
        if sols is not None and ev.get("records"):
            pw = O.pointwise(sess, "o0", ev, max_points=spec.get("max_points", 1024), sols=sols)
            cnt.inc("hook_batches", pw["batches"])
            cnt.inc("points_compared", pw["points"])
            cnt.inc("sat_calls", pw["sat_calls"])
            if pw["status"] == "mismatch":
                viol.append(("formula-mismatch", "after %s: %d points differ, e.g. %s" % (
                    SC.src_op(ev["op"]).split("\n")[0], pw["n_mismatch"], pw["mismatches"][:3])))
            elif pw["status"] != "ok":
                cnt.inc("m2_" + pw["status"].split(":")[0])
            else:
                cnt.inc("formulas_equivalent")
    SC.release(evs)
    res = {"counters": dict(cnt), "nontrivial": nontrivial, "source": SC.source_of(spec)}
    if viol:
        res.update(status=common.VIOL, kind=viol[0][0], msg=" || ".join(v[1] for v in viol[:3]))
        from ..findings import classify
        res["finding"] = classify("C01", spec, viol, evs)
    else:
        res["status"] = common.HELD if cnt.get("calls_ok") else common.NOOBS
    return res


def min_observation(tot, status_n, tier):
    if tot.get("calls_ok", 0) < 50:
        return False, "fewer than 50 successful calls observed"
    if tot.get("hook_batches", 0) == 0 or tot.get("points_compared", 0) == 0:
        return False, "the hook monitor observed no solver batch (PYVSC_VERIF hook missing?)"
    return True, ""
