"""C01 - returned values satisfy every active hard constraint and their type.

Monitors: M1 (API-boundary recorder + reference evaluation of every active hard
statement on the values read after the call) and M2 (solver-formula monitor at
the guarded hook: pointwise equivalence of the library's lowered formula with
the exhaustively enumerated reference solution set)."""
from .. import common, gen, judge as J, ref as R
from ..libstate import reset_lib_state

LEVEL = "exploration"
RULE = ("case = generated constraint program (typed, sign-homogeneous nesting) + history of 3-6 calls "
        "(randomize / randomize_with / vsc.randomize / vsc.randomize_with) with fresh non-random values in "
        "between; non-trivial = at least one call whose reference solution set is neither empty nor the whole "
        "domain; distinct by canonical hash of program+history")
ASSUMPTIONS = [
    "reference semantics ref.py (SystemVerilog-style context width/signedness) on the validated input language; "
    "constructs where that meaning is contestable raise Corner and are not judged",
    "pointwise equivalence is exhaustive only for calls whose random fields total <= 10 (quick) / 14 (thorough) bits",
]
CASE_TIMEOUT = 120


def plan(tier):
    if tier == "quick":
        return {"ncases": 640, "budget_s": 75}
    return {"ncases": 9000, "budget_s": 900}


def gen_case(rng, tier, idx):
    if idx % 5 == 4:
        # wide class: widths up to 64, known satisfiable through a planted witness; judged by reference evaluation of the
        # returned values, the planted SAT label and pointwise comparison on sampled points around witness and solution
        for _ in range(20):
            try:
                prog, g, wit = gen.wide_program(rng)
                gen.validate(prog)
            except Exception:
                continue
            hist = [{"op": "randomize", "o": "o0"} for _k in range(rng.randint(2, 4))]
            scope = gen.scope_of(prog, "C0")
            for _k in range(rng.randint(0, 2)):
                st = [s for s in [g.stmt(scope, depth=1, sdepth=0, allow=("e",))] if s]
                if st:
                    hist.insert(rng.randrange(len(hist) + 1), {"op": "with", "o": "o0", "inline": st})
            return {"prog": prog, "hist": hist, "seed": rng.randint(1, 1 << 30), "max_points": 1024, "wide": True, "witness": wit}
        return None
    max_bits = 10 if tier == "quick" else rng.choice([8, 10, 12, 14])
    for _ in range(20):
        prog, g = gen.scalar_program(rng, max_bits=max_bits)
        try:
            gen.validate(prog)
        except R.Corner:
            continue
        except Exception:
            continue
        hist = gen.history(g, prog, ncalls=rng.randint(3, 6) if tier == "quick" else rng.randint(3, 10))
        return {"prog": prog, "hist": hist, "seed": rng.randint(1, 1 << 30),
                "max_points": 1 << (10 if tier == "quick" else 14)}
    return None


def exec_case(spec):
    res = J.judge(spec, J.VALUE_KINDS)
    if res.get("status") == common.INCONC:
        return res
    return J.finish(res, "C01", spec, observed_key="calls_ok")


def min_observation(tot, status_n, tier):
    if tot.get("calls_ok", 0) < 50:
        return False, "fewer than 50 successful calls observed"
    if tot.get("hook_batches", 0) == 0 or tot.get("points_compared", 0) == 0:
        return False, "the hook monitor observed no solver batch (PYVSC_VERIF hook missing?)"
    return True, ""
