"""C17 - pre_randomize / post_randomize run once each, before and after the solve.

Monitor M5 (callback recorder): every generated class carries pre_randomize /
post_randomize that append (global sequence number, object identity, phase,
visible field values); pre_randomize also writes fresh values into designated
non-random fields.  Per call the log must show exactly one pre and one post for
the top object and for every sub-object reachable through random members
(list elements included), none for a non-random sub-object or anything below
it, every pre before every post; the value pre_randomize wrote is the one the
constraints used (the reference solution set is computed WITH the written
values; M2 compares the lowered formula pointwise); the values seen in
post_randomize equal those read after the call."""
from .. import common, gen, judge as J, ref as R, solvercase as SC
from ..session import snap_get

LEVEL = "exploration"
RULE = ("case = object tree of depth 2-3 (random and non-random sub-objects at every level, lists of objects, several "
        "siblings of one class), every class with recording callbacks; history of calls of all kinds (randomize, "
        "randomize_with, vsc.randomize / randomize_with on the root, on a sub-object or on plain fields, randomize on a "
        "sub-object), half of them with pre_randomize writing new values into non-random fields that constraints use; "
        "non-trivial = a call whose tree contains at least one random and one non-random sub-object")
ASSUMPTIONS = ["reference rule: an object takes part iff it is the call's top object or reachable from it through members declared random",
               "reference semantics ref.py for the 'solver saw the pre_randomize value' part"]
CASE_TIMEOUT = 120
DECIDE = {"callback-count", "callback-on-nonrandom-object", "callback-order", "post-sees-stale-values",
          "value-violates-constraint", "formula-mismatch", "list-views-disagree", "other-exception"}


def plan(tier):
    return {"ncases": 480, "budget_s": 80} if tier == "quick" else {"ncases": 6000, "budget_s": 900}


def gen_list_case(rng):
    """pre_randomize writes the non-random field that bounds the size of a random-size list through an expression:
    the list must be sized for the value the callback wrote (the size, len(), indexing and iteration agree, the
    foreach holds on every exposed element)"""
    w = rng.choice([2, 3])
    fields = [{"n": "k", "k": "int", "w": 3, "s": False, "r": False, "i": rng.randint(1, 2)},
              {"n": "a", "k": "int", "w": 2, "s": False, "r": True},
              {"n": "l", "k": "list", "ek": "int", "w": w, "s": False, "r": True, "rsz": True, "sz": 0, "szmax": 3}]
    rng.shuffle(fields)
    st = [["e", ["b", "<=", ["sz", ["l"]], ["b", "-", ["f", ["k"]], ["c", 1]]]],
          ["e", ["b", "<=", ["sz", ["l"]], ["c", 3]]]]
    if rng.random() < 0.6:
        st.append(["e", ["b", ">=", ["sz", ["l"]], ["b", "-", ["f", ["k"]], ["c", rng.choice([1, 2])]]]])
    prog = {"enums": {}, "classes": {"Top": {"base": None, "fields": fields, "blocks": [{"n": "c0", "st": st}]}}, "top": "Top"}
    hist = []
    for _ in range(rng.randint(3, 6)):
        op = {"op": "randomize", "o": "o0"} if rng.random() < 0.7 else {
            "op": "with", "o": "o0", "inline": [["e", ["b", rng.choice(["<", ">", "!="]), ["f", ["a"]], ["c", rng.randint(0, 3)]]]]}
        if rng.random() < 0.8:
            op["pre_writes"] = [[[], "k", rng.randint(1, 4)]]
        hist.append(op)
    return {"prog": prog, "hist": hist, "seed": rng.randint(1, 1 << 30), "max_points": 1 << 11}


def gen_case(rng, tier, idx):
    if idx % 8 == 7:
        return gen_list_case(rng)
    if idx % 8 == 3:
        return gen_nested_case(rng)
    for _ in range(20):
        prog, g = gen.tree_program(rng, max_bits=10, with_collections=False, deep=rng.random() < 0.5)
        hist = gen.tree_history(g, prog, nops=rng.randint(5, 12), toggles=False, collections=False)
        try:
            gen.validate(prog)
        except Exception:
            continue
        # pre_randomize writes into non-random scalar fields of objects of the tree
        st = R.new_state(prog, "Top")
        objs, leaves = [], []
        R.walk_leaves(prog, st, True, [], 0, leaves, objs)
        writable = []
        for opath, ost, used in objs:
            for fd in R.all_fields(prog, ost["cls"]):
                if fd["k"] == "int" and not fd["r"]:
                    writable.append((list(opath), fd))
        for op in hist:
            if op["op"] in ("randomize", "with") and not op.get("target") and writable and rng.random() < 0.5:
                op["pre_writes"] = []
                for opath, fd in rng.sample(writable, rng.randint(1, min(2, len(writable)))):
                    op["pre_writes"].append([opath, fd["n"], g.rand_val(fd["w"], fd["s"])])
            elif op["op"] == "free" and rng.random() < 0.6:
                # free-standing call on whole objects: the root or a sub-object
                subs = [fd["n"] for fd in prog["classes"]["Top"]["fields"] if fd["k"] == "obj"]
                op["fields"] = [[]] if (rng.random() < 0.5 or not subs) else [[rng.choice(subs)]]
        return {"prog": prog, "hist": hist, "seed": rng.randint(1, 1 << 30), "max_points": 1 << 11}
    return None


def per_call(sess, ev, add, cnt):
    call = ev.get("call")
    if call is None:
        return
    head = SC.src_op(ev["op"]).split("\n")[0]
    ids = ev.get("obj_ids") or {}
    log = ev.get("cb_log") or []
    cnt.inc("callback_records", len(log))
    ok_call = ev["outcome"] == "ok"
    per = {}
    for seq, oid, cname, phase, vals in log:
        per.setdefault(oid, []).append((seq, phase, vals))
    expected = {oid: path for oid, (path, used) in ids.items() if used}
    notexp = {oid: path for oid, (path, used) in ids.items() if not used}
    if any(not used for path, used in ids.values()) and any(used and path for path, used in ids.values()):
        ev["_mixed_tree"] = True
    # objects the hook may call although they are outside the call's tree are attributed by id only
    for oid, recs in per.items():
        if oid in notexp:
            add("callback-on-nonrandom-object", "%s: %s ran on %s which is not random in this call" % (
                head, [p for _, p, _ in recs], ".".join(map(str, notexp[oid])) or "<root>"))
    if not ok_call:
        # a failed call: pre must still have run at most once per object, no post-condition on post
        for oid, path in expected.items():
            n_pre = sum(1 for _, p, _ in per.get(oid, []) if p == "pre")
            if n_pre > 1:
                add("callback-count", "%s (failed): pre_randomize ran %d times on %s" % (head, n_pre, ".".join(map(str, path)) or "<root>"))
        return
    cnt.inc("calls_judged")
    last_pre = max([seq for seq, oid, c, ph, v in log if ph == "pre"] or [0])
    first_post = min([seq for seq, oid, c, ph, v in log if ph == "post"] or [1 << 60])
    if last_pre > first_post:
        add("callback-order", "%s: a post_randomize (seq %d) ran before a pre_randomize (seq %d)" % (head, first_post, last_pre))
    for oid, path in expected.items():
        recs = per.get(oid, [])
        n_pre = sum(1 for _, p, _ in recs if p == "pre")
        n_post = sum(1 for _, p, _ in recs if p == "post")
        cnt.inc("objects_checked")
        name = ".".join(map(str, path)) or "<root>"
        if n_pre != 1 or n_post != 1:
            add("callback-count", "%s: object %s saw %d pre_randomize and %d post_randomize (expected 1 and 1)" % (head, name, n_pre, n_post))
            continue
        post_vals = [v for _, p, v in recs if p == "post"][0]
        for fname, v in post_vals.items():
            try:
                final = snap_get(ev["post"], list(path) + [fname])
            except Exception:
                continue
            if final != v:
                add("post-sees-stale-values", "%s: post_randomize of %s saw %s=%r but the call left %r" % (head, name, fname, v, final))


def gen_nested_case(rng):
    prog, g = gen.tree_program(rng, max_bits=10, with_collections=False, deep=rng.random() < 0.5)
    prog = {k: v for k, v in prog.items() if not k.startswith("_")}
    return {"prog": prog, "nested": True, "seed": rng.randint(1, 1 << 30), "ncalls": rng.randint(2, 4), "pick": rng.random()}


def exec_nested(spec):
    """A post_randomize callback calls randomize() on a random sub-object of its own object (segmented randomization).
    The nested call is a call of its own (one pre, one post on the sub-object and what is below it); the enclosing
    call must still run every callback of its own exactly once: the sub-object sees 2 + 2, every other object 1 + 1."""
    from ..session import Session
    from ..libstate import quiet, reset_lib_state
    cnt = common.Counters()
    viol = []
    prog = spec["prog"]
    sess = Session(prog, callbacks=True, seed=spec["seed"])
    o = sess.new("o0")
    st = R.new_state(prog, prog["top"])
    objs, leaves = [], []
    R.walk_leaves(prog, st, True, [], 0, leaves, objs)
    used = [tuple(p) for p, s_, u in objs if u]
    # holders: used objects with a random sub-object attribute (not a list element)
    cands = []
    for p in used:
        cls = R.get_at(st, p)["cls"] if p else st["cls"]
        for fd in R.all_fields(prog, cls):
            if fd["k"] == "obj" and fd["r"] and tuple(p) + (fd["n"],) in used:
                cands.append((p, fd["n"]))
    if not cands:
        reset_lib_state()
        return {"status": common.NOOBS, "counters": dict(cnt), "nontrivial": False, "source": SC.source_of({"prog": prog, "hist": []})}
    hp, sub = cands[int(spec["pick"] * len(cands)) % len(cands)]
    holder = sess.live_at("o0", list(hp))
    target = tuple(hp) + (sub,)
    below = [p for p in used if p[:len(target)] == target]
    sess.bt.post_nested = {id(holder): [sub]}
    ids = {id(sess.live_at("o0", list(p))): p for p in used}
    src = SC.source_of({"prog": prog, "hist": []}) + "\n# post_randomize of %s calls self.%s.randomize()" % (".".join(map(str, hp)) or "<root>", sub)
    try:
        for k in range(spec["ncalls"]):
            del sess.bt.log[:]
            try:
                with quiet():
                    o.randomize()
            except Exception as e:
                if type(e).__name__ == "CaseTimeout":
                    raise
                cnt.inc("calls_raised")
                reset_lib_state()
                continue
            cnt.inc("calls_judged")
            cnt.inc("nested_calls_judged")
            cnt.inc("callback_records", len(sess.bt.log))
            per = {}
            for seq, oid, cname, phase, vals in sess.bt.log:
                per.setdefault(oid, []).append(phase)
            for oid, p in ids.items():
                exp = 2 if p in below else 1
                n_pre, n_post = per.get(oid, []).count("pre"), per.get(oid, []).count("post")
                cnt.inc("objects_checked")
                if n_pre != exp or n_post != exp:
                    viol.append(("callback-count", "call %d: object %s saw %d pre_randomize and %d post_randomize (expected %d and %d: the "
                                 "post_randomize of %s randomizes self.%s again)\n%s" % (
                                     k, ".".join(map(str, p)) or "<root>", n_pre, n_post, exp, exp, ".".join(map(str, hp)) or "<root>", sub, src), None))
    finally:
        sess.bt.post_nested = {}
        reset_lib_state()
    res = {"counters": dict(cnt), "nontrivial": cnt.get("calls_judged", 0) > 0, "source": src}
    if viol:
        res.update(status=common.VIOL, kind=viol[0][0], msg=" || ".join(v[1] for v in viol[:2]), finding=None)
    else:
        res["status"] = common.HELD if cnt.get("calls_judged") else common.NOOBS
    return res


def exec_case(spec):
    if spec.get("nested"):
        return exec_nested(spec)
    res = J.judge(spec, DECIDE, callbacks=True, per_call=per_call)
    if res.get("status") == common.INCONC:
        return res
    res["nontrivial"] = any(ev.get("_mixed_tree") for ev in res.get("_evs", []))
    return J.finish(res, "C17", spec, observed_key="calls_judged")


def min_observation(tot, status_n, tier):
    if tot.get("calls_judged", 0) < 100 or tot.get("callback_records", 0) < 400:
        return False, "too few callback records (%s) / calls (%s)" % (tot.get("callback_records", 0), tot.get("calls_judged", 0))
    return True, ""
