"""C17 - pre_randomize / post_randomize run once each, before and after the solve.

Monitor M5 (callback recorder): every generated class carries pre_randomize /
post_randomize that append (global sequence number, object identity, phase,
visible field values); pre_randomize also writes fresh values into designated
non-random fields.  Per call the log must show exactly one pre and one post for
the top object and for every sub-object reachable through random members
(list elements included), none for a non-random sub-object or anything below
it, every pre before every post; the value pre_randomize wrote is the one the
constraints used (the reference solution set is computed WITH the written
values; M2 compares the lowered formula pointwise); the values seen in
post_randomize equal those read after the call."""
from .. import common, gen, judge as J, ref as R, solvercase as SC
from ..session import snap_get

LEVEL = "exploration"
RULE = ("case = object tree of depth 2-3 (random and non-random sub-objects at every level, lists of objects, several "
        "siblings of one class), every class with recording callbacks; history of calls of all kinds (randomize, "
        "randomize_with, vsc.randomize / randomize_with on the root, on a sub-object or on plain fields, randomize on a "
        "sub-object), half of them with pre_randomize writing new values into non-random fields that constraints use; "
        "non-trivial = a call whose tree contains at least one random and one non-random sub-object")
ASSUMPTIONS = ["reference rule: an object takes part iff it is the call's top object or reachable from it through members declared random",
               "reference semantics ref.py for the 'solver saw the pre_randomize value' part"]
CASE_TIMEOUT = 120
DECIDE = {"callback-count", "callback-on-nonrandom-object", "callback-order", "post-sees-stale-values",
          "value-violates-constraint", "formula-mismatch"}


def plan(tier):
    return {"ncases": 480, "budget_s": 80} if tier == "quick" else {"ncases": 6000, "budget_s": 900}


def gen_case(rng, tier, idx):
    for _ in range(20):
        prog, g = gen.tree_program(rng, max_bits=10, with_collections=False, deep=rng.random() < 0.5)
        hist = gen.tree_history(g, prog, nops=rng.randint(5, 12), toggles=False, collections=False)
        try:
            gen.validate(prog)
        except Exception:
            continue
        # pre_randomize writes into non-random scalar fields of objects of the tree
        st = R.new_state(prog, "Top")
        objs, leaves = [], []
        R.walk_leaves(prog, st, True, [], 0, leaves, objs)
        writable = []
        for opath, ost, used in objs:
            for fd in R.all_fields(prog, ost["cls"]):
                if fd["k"] == "int" and not fd["r"]:
                    writable.append((list(opath), fd))
        for op in hist:
            if op["op"] in ("randomize", "with") and not op.get("target") and writable and rng.random() < 0.5:
                op["pre_writes"] = []
                for opath, fd in rng.sample(writable, rng.randint(1, min(2, len(writable)))):
                    op["pre_writes"].append([opath, fd["n"], g.rand_val(fd["w"], fd["s"])])
            elif op["op"] == "free" and rng.random() < 0.6:
                # free-standing call on whole objects: the root or a sub-object
                subs = [fd["n"] for fd in prog["classes"]["Top"]["fields"] if fd["k"] == "obj"]
                op["fields"] = [[]] if (rng.random() < 0.5 or not subs) else [[rng.choice(subs)]]
        return {"prog": prog, "hist": hist, "seed": rng.randint(1, 1 << 30), "max_points": 1 << 11}
    return None


def per_call(sess, ev, add, cnt):
    call = ev.get("call")
    if call is None:
        return
    head = SC.src_op(ev["op"]).split("\n")[0]
    ids = ev.get("obj_ids") or {}
    log = ev.get("cb_log") or []
    cnt.inc("callback_records", len(log))
    ok_call = ev["outcome"] == "ok"
    per = {}
    for seq, oid, cname, phase, vals in log:
        per.setdefault(oid, []).append((seq, phase, vals))
    expected = {oid: path for oid, (path, used) in ids.items() if used}
    notexp = {oid: path for oid, (path, used) in ids.items() if not used}
    if any(not used for path, used in ids.values()) and any(used and path for path, used in ids.values()):
        ev["_mixed_tree"] = True
    # objects the hook may call although they are outside the call's tree are attributed by id only
    for oid, recs in per.items():
        if oid in notexp:
            add("callback-on-nonrandom-object", "%s: %s ran on %s which is not random in this call" % (
                head, [p for _, p, _ in recs], ".".join(map(str, notexp[oid])) or "<root>"))
    if not ok_call:
        # a failed call: pre must still have run at most once per object, no post-condition on post
        for oid, path in expected.items():
            n_pre = sum(1 for _, p, _ in per.get(oid, []) if p == "pre")
            if n_pre > 1:
                add("callback-count", "%s (failed): pre_randomize ran %d times on %s" % (head, n_pre, ".".join(map(str, path)) or "<root>"))
        return
    cnt.inc("calls_judged")
    last_pre = max([seq for seq, oid, c, ph, v in log if ph == "pre"] or [0])
    first_post = min([seq for seq, oid, c, ph, v in log if ph == "post"] or [1 << 60])
    if last_pre > first_post:
        add("callback-order", "%s: a post_randomize (seq %d) ran before a pre_randomize (seq %d)" % (head, first_post, last_pre))
    for oid, path in expected.items():
        recs = per.get(oid, [])
        n_pre = sum(1 for _, p, _ in recs if p == "pre")
        n_post = sum(1 for _, p, _ in recs if p == "post")
        cnt.inc("objects_checked")
        name = ".".join(map(str, path)) or "<root>"
        if n_pre != 1 or n_post != 1:
            add("callback-count", "%s: object %s saw %d pre_randomize and %d post_randomize (expected 1 and 1)" % (head, name, n_pre, n_post))
            continue
        post_vals = [v for _, p, v in recs if p == "post"][0]
        for fname, v in post_vals.items():
            try:
                final = snap_get(ev["post"], list(path) + [fname])
            except Exception:
                continue
            if final != v:
                add("post-sees-stale-values", "%s: post_randomize of %s saw %s=%r but the call left %r" % (head, name, fname, v, final))


def exec_case(spec):
    res = J.judge(spec, DECIDE, callbacks=True, per_call=per_call)
    if res.get("status") == common.INCONC:
        return res
    res["nontrivial"] = any(ev.get("_mixed_tree") for ev in res.get("_evs", []))
    return J.finish(res, "C17", spec, observed_key="calls_judged")


def min_observation(tot, status_n, tier):
    if tot.get("calls_judged", 0) < 100 or tot.get("callback_records", 0) < 400:
        return False, "too few callback records (%s) / calls (%s)" % (tot.get("callback_records", 0), tot.get("calls_judged", 0))
    return True, ""
