"""C09 - random stability: results depend only on seed, model and call history.

Monitor M7 (cross-process differential runner): one scenario (class
definitions, seed, call history) is executed in N fresh interpreters that
differ in exactly one nuisance factor the property declares irrelevant
(PYTHONHASHSEED, unrelated library use and use of Python's global random
interleaved between the calls, allocation/GC churn, extra class definitions,
debug / solve_fail_debug / VSC_DEBUG / VSC_SOLVEFAIL_DEBUG /
VSC_CAPTURE_SRCINFO / @randobj(srcinfo=True)); the emitted value traces are
compared with the baseline process.  Inside every process a snapshot
(get_randstate) is taken at a random step - also before the object ever had a
state - and restored twice: each replay must reproduce exactly the values that
followed the snapshot."""
import json
import os
import random
import shutil
import subprocess
import sys
import tempfile
import time
from concurrent.futures import ThreadPoolExecutor

from .. import common, gen, ref as R, solvercase as SC

LEVEL = "exploration"
RULE = ("case = scenario (generated class: >4 random fields, enums, dist, solve_order, random-size list, soft constraints, "
        "nested objects; explicit RandState seed or Python's global seed; 4-8 calls incl. randomize_with and free-standing "
        "vsc.randomize(randstate=)) x variants (baseline + hash seeds + noise kinds + diagnostics + srcinfo), each variant "
        "in its own interpreter; non-trivial = the baseline trace contains >= 3 successful calls whose values are not all "
        "equal and >= 5 variant processes were compared; distinct by scenario hash")
ASSUMPTIONS = ["noise that draws from Python's global random is only applied to scenarios that give every object an explicit RandState",
               "a finite set of nuisance factors is exercised (listed in the evidence)"]

VARIANTS_QUICK = [
    ("hash1", {"env": {"PYTHONHASHSEED": "1"}}),
    ("hash_random", {"env": {"PYTHONHASHSEED": "random"}}),
    ("noise_objects_gc", {"noise": ["other_objects", "gc"], "env": {"PYTHONHASHSEED": "2"}}),
    ("noise_global_random", {"noise": ["global_random", "default_state_objects", "class_defs"]}),
    ("debug", {"debug": 1}),
    ("solvefail_debug_env", {"solve_fail_debug": 1, "env": {"VSC_SOLVEFAIL_DEBUG": "1"}}),
    ("srcinfo", {"srcinfo": 1, "env": {"VSC_CAPTURE_SRCINFO": "1"}}),
]
VARIANTS_THOROUGH = VARIANTS_QUICK + [
    ("hash2", {"env": {"PYTHONHASHSEED": "2"}}),
    ("hash3", {"env": {"PYTHONHASHSEED": "12345"}}),
    ("hash_random2", {"env": {"PYTHONHASHSEED": "random"}}),
    ("vsc_debug_env", {"env": {"VSC_DEBUG": "1"}}),
    ("noise_all", {"noise": ["other_objects", "gc", "class_defs", "global_random", "default_state_objects"],
                   "env": {"PYTHONHASHSEED": "random"}}),
    ("srcinfo_only", {"srcinfo": 1}),
    ("capture_srcinfo_env", {"env": {"VSC_CAPTURE_SRCINFO": "1"}}),
    ("debug_and_noise", {"debug": 1, "noise": ["other_objects"]}),
]


def plan(tier):
    return {"ncases": 64 if tier == "quick" else 700, "budget_s": 100 if tier == "quick" else 1500}


def gen_scenario(rng, idx):
    kind = ["wide", "dist", "order", "list", "soft", "tree", "wide"][idx % 7]
    g = None
    for _ in range(40):
        if kind == "wide":
            g = gen.G(rng, 40)
            fields = []
            for i in range(rng.randint(5, 7)):
                fields.append({"n": "f%d" % i, "k": "int", "w": rng.choice([3, 5, 8, 16, 32]), "s": rng.random() < 0.3, "r": True})
            g.mk_enum("E0")
            fields.append({"n": "e0", "k": "enum", "e": "E0", "r": True})
            fields.append({"n": "k0", "k": "int", "w": 8, "s": False, "r": False, "i": rng.randint(0, 200)})
            prog = {"enums": g.enums, "classes": {"C0": {"base": None, "fields": fields, "blocks": []}}, "top": "C0"}
            sc = gen.scope_of(prog, "C0")
            for bi in range(2):
                prog["classes"]["C0"]["blocks"].append(g.block(sc, "c%d" % bi, nst=rng.randint(1, 2), depth=1, sdepth=1))
        elif kind == "dist":
            prog, g = gen.dist_program(rng, pure=False)
        elif kind == "order":
            prog = gen.order_pair(rng)[0]
            g = gen.G(rng, 10)
        elif kind == "list":
            prog, g = gen.list_program(rng)
            prog = {k: v for k, v in prog.items() if not k.startswith("_")}
            if any(fd["k"] == "list" and fd.get("rsz") and fd.get("ek") == "obj" for fd in prog["classes"]["T"]["fields"]):
                # the exposed length of a random-size list of objects cannot be put back by the user before a replay
                continue
        elif kind == "soft":
            prog, g = gen.soft_program(rng, max_bits=12)
            if prog is None:
                continue
        else:
            prog, g = gen.tree_program(rng, max_bits=12, with_collections=False, deep=True)
        try:
            call = gen.validate(prog)
        except Exception:
            continue
        top = prog["top"]
        scope = gen.scope_of(prog, top)
        hist = []
        for ci in range(rng.randint(4, 8)):
            c = rng.random()
            nonr = [(p, fd) for p, fd in scope if fd["k"] == "int" and not fd["r"] and len(p) == 1]
            if nonr and c < 0.15:
                p, fd = rng.choice(nonr)
                hist.append({"op": "set", "path": list(p), "v": g.rand_val(fd["w"], fd["s"])})
            if c < 0.6:
                hist.append({"op": "randomize"})
            elif c < 0.85:
                st = [s for s in [g.stmt(scope, depth=1, sdepth=0, allow=("e",))] if s]
                hist.append({"op": "with", "inline": st} if st else {"op": "randomize"})
            else:
                cand = [list(p) for p, fd in scope if len(p) == 1 and fd["k"] in ("int", "enum") and fd["r"]]
                if cand:
                    hist.append({"op": "free", "fields": rng.sample(cand, rng.randint(1, min(2, len(cand))))})
                else:
                    hist.append({"op": "randomize"})
        mode = "explicit" if rng.random() < 0.7 else "global"
        if mode == "global":
            # a free-standing call without randstate= draws a fresh state from Python's global random every time:
            # the object's own snapshot cannot (and need not) replay it
            hist = [({"op": "randomize"} if op["op"] == "free" else op) for op in hist]
        ncalls = len(hist)
        return {"prog": prog, "hist": hist, "mode": mode, "seed": rng.randint(1, 1 << 30), "global_seed": rng.randint(1, 1 << 30),
                "snapshot_at": rng.choice([0, 0, rng.randrange(ncalls)]), "kind": kind,
                "seed_str": rng.choice([None, "top.env.agent%d" % rng.randint(0, 9), "x"])}
    return None


def run_variant(scfile, name, var, tmpdir, timeout):
    vf = os.path.join(tmpdir, "%s.%s.json" % (os.path.basename(scfile), name))
    with open(vf, "w") as f:
        json.dump({k: v for k, v in var.items() if k != "env"}, f)
    env = dict(os.environ)
    env["PYTHONHASHSEED"] = "0"
    for k in ("VSC_DEBUG", "VSC_SOLVEFAIL_DEBUG", "VSC_CAPTURE_SRCINFO"):
        env.pop(k, None)
    env.update(var.get("env", {}))
    env["PYVSC_VERIF"] = "0"      # the hook monitor is not part of this check: run the library as users do
    try:
        r = subprocess.run([sys.executable, "-m", "pvmon.c09_runner", scfile, vf], capture_output=True, text=True,
                           env=env, cwd=common.VERIF, timeout=timeout)
    except subprocess.TimeoutExpired:
        return name, None, "timeout"
    out = r.stdout
    i = out.rfind("@@C09TRACE@@")
    if i < 0:
        return name, None, "no-trace rc=%s %s" % (r.returncode, (r.stderr or "")[-300:])
    return name, out[i + 12:].strip(), None


def run(tier, seed, args):
    pl = plan(tier)
    n = args.cases or pl["ncases"]
    variants = VARIANTS_QUICK if tier == "quick" else VARIANTS_THOROUGH
    tmpdir = tempfile.mkdtemp(prefix="pvmon-c09-")
    results = []
    t0 = time.time()
    try:
        jobs = []
        scen = []
        for idx in range(n):
            rng = common.case_rng("C09", tier, seed, idx)
            sc = gen_scenario(rng, idx)
            if sc is None:
                results.append({"idx": idx, "status": common.INCONC, "kind": "gen-none"})
                continue
            f = os.path.join(tmpdir, "s%d.json" % idx)
            with open(f, "w") as fh:
                json.dump(sc, fh)
            scen.append((idx, sc, f))
        with ThreadPoolExecutor(max_workers=args.workers or common.NCPU) as ex:
            futs = {}
            for idx, sc, f in scen:
                futs[idx] = [ex.submit(run_variant, f, "baseline", {}, tmpdir, 120)]
                for name, var in variants:
                    if sc["mode"] != "explicit" and any(x in ("global_random", "default_state_objects") for x in var.get("noise", [])):
                        var = dict(var, noise=[x for x in var["noise"] if x not in ("global_random", "default_state_objects")])
                    futs[idx].append(ex.submit(run_variant, f, name, var, tmpdir, 120))
            for idx, sc, f in scen:
                if time.time() - t0 > pl["budget_s"] * 2:
                    results.append({"idx": idx, "status": "notrun"})
                    continue
                outs = [fu.result() for fu in futs[idx]]
                results.append(judge_scenario(idx, sc, outs))
    finally:
        shutil.rmtree(tmpdir, ignore_errors=True)
    return results, {"workers": args.workers or common.NCPU, "worker_crashes": 0, "worker_killed": 0, "crash_logs": []}


def judge_scenario(idx, sc, outs):
    cnt = common.Counters()
    src = SC.source_of({"prog": sc["prog"], "hist": []}) + "\n# mode=%s seed=%s snapshot_at=%s\n# history: %s" % (
        sc["mode"], sc["seed"] if sc["mode"] == "explicit" else sc["global_seed"], sc["snapshot_at"],
        [op["op"] for op in sc["hist"]])
    base = outs[0]
    res = {"idx": idx, "hash": common.canon_hash(sc), "source": src, "spec": None}
    if base[1] is None:
        res.update(status=common.INCONC, kind="baseline-failed", msg=str(base[2]), counters=dict(cnt))
        return res
    bt = json.loads(base[1])
    viol = []
    cnt.inc("processes", 1)
    oks = [t for t in bt["trace"] if t[0] == "ok"]
    cnt.inc("baseline_calls_ok", len(oks))
    compared = 0
    for name, out, err in outs[1:]:
        if out is None:
            cnt.inc("variant_failed")
            continue
        cnt.inc("processes", 1)
        compared += 1
        vt = json.loads(out)
        if vt["trace"] != bt["trace"]:
            first = next((j for j, (a, b) in enumerate(zip(vt["trace"], bt["trace"])) if a != b), None)
            viol.append(("trace-differs:" + name, "variant %s: value trace differs from the baseline process at call %s: %s vs baseline %s" % (
                name, first, vt["trace"][first] if first is not None else None, bt["trace"][first] if first is not None else None)))
        for tag, t in (("baseline", bt), (name, vt)) if name == outs[1][0] else ((name, vt),):
            cnt.inc("replays_checked", t["replay"]["checked"])
            for b in t["replay"]["bad"]:
                viol.append(("snapshot-replay-differs", "%s process: restoring the snapshot taken before call %s does not replay the values that "
                             "followed it (replay #%d, first difference at step %s: got %s, want %s)" % (
                                 tag, sc["snapshot_at"], b["replay"], b["first_diff_step"], b["got"], b["want"])))
    cnt.inc("variants_compared", compared)
    vals = [json.dumps(t[1], sort_keys=True) for t in oks]
    res["nontrivial"] = len(oks) >= 3 and len(set(vals)) > 1 and compared >= 5
    res["counters"] = dict(cnt)
    if viol:
        res.update(status=common.VIOL, kind=viol[0][0], msg=" || ".join(v[1] for v in viol[:3]), spec=sc)
    else:
        res["status"] = common.HELD if compared else common.NOOBS
    return res


def gen_case(rng, tier, idx):
    return gen_scenario(rng, idx)


def exec_case(spec):
    """replay of one scenario (all quick variants)"""
    tmpdir = tempfile.mkdtemp(prefix="pvmon-c09-")
    try:
        f = os.path.join(tmpdir, "s.json")
        with open(f, "w") as fh:
            json.dump(spec, fh)
        outs = [run_variant(f, "baseline", {}, tmpdir, 120)]
        for name, var in VARIANTS_THOROUGH:
            if spec["mode"] != "explicit":
                var = dict(var, noise=[x for x in var.get("noise", []) if x not in ("global_random", "default_state_objects")])
            outs.append(run_variant(f, name, var, tmpdir, 120))
        r = judge_scenario(0, spec, outs)
        r.pop("spec", None)
        return r
    finally:
        shutil.rmtree(tmpdir, ignore_errors=True)


def min_observation(tot, status_n, tier):
    if tot.get("processes", 0) < 2 or tot.get("variants_compared", 0) < 20:
        return False, "fewer than 20 variant processes compared"
    if tot.get("replays_checked", 0) < 20:
        return False, "fewer than 20 snapshot replays"
    return True, ""


def extra_coverage(tot, results, tier):
    return {"variants": [n for n, _ in (VARIANTS_QUICK if tier == "quick" else VARIANTS_THOROUGH)],
            "processes_compared": int(tot.get("processes", 0))}
