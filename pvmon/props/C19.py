"""C19 - wildcard bins match exactly the values that agree with the pattern.

Monitor M6 (covref.wild_parse / wild_match, written from the statement) against
live covergroups through the public API only: every case builds ONE coverpoint
with a batch of wildcard bins (or wildcard bin arrays), samples EVERY value of
the coverpoint's type and compares all hit counters after every sample.

Exhaustive parts: all (value, mask) pairs of <= 8 bits (thorough; quick: all
pairs of <= 6 bits + random 8-bit pairs) x all 256 samples; all binary strings
of <= 8 digits, hex and octal strings of <= 3 digits over {digits, x, ?} with
'_' separators, 'X' and upper-case prefixes as decorations (quick: shorter
strings + random long ones); wildcard bin arrays for every in-mask pair."""
import functools
import itertools
import traceback

from .. import common
from .. import covbuild as cb
from .. import covref
from ..libstate import import_vsc, reset_lib_state, raised_in_library

LEVEL = "exploration"
RULE = ("case = one coverpoint holding a batch of wildcard bins (81-128 (value,mask) pairs, 64 pattern strings, "
        "multi-pattern bins) or 1-2 wildcard bin arrays, swept with every value of the coverpoint's type (all "
        "256 values for 8 bits; 512 / 4096 for 9 / 12-bit string patterns), compared after every sample; distinct "
        "by the bin specifications; a bin is non-trivial when its pattern has at least one fixed and one wildcard bit "
        "of the type (it must be hit by some and missed by other samples)")
ASSUMPTIONS = [
    "bits of the coverpoint's type that the pattern does not mention (above its most significant digit) are wildcards",
    "a (value, mask) pair compares exactly the bits set in mask: v matches iff (v & mask) == (value & mask)",
    "array elements are named <name>[k]; bins of one declaration are recognised by that prefix",
    "coverpoints are unsigned (bit_t) - the statement does not define wildcards over negative values",
    "patterns of wildcard ARRAYS are never wider than the coverpoint's type (single wildcard bins may be)",
]
CASE_TIMEOUT = 300

F_HIGH = "wildcard-array-high-bits"
F_OUT = "wildcard-value-outside-mask"
F_OVL = "wildcard-array-overlap-merge"
PRIORITY = [F_OVL, F_HIGH, F_OUT]

DIG = {"b": "01", "o": "01234567", "x": "0123456789abcdef"}
PER = {"b": 1, "o": 3, "x": 4}


# ---------------------------------------------------------------- case table
def _all_strings(base, maxlen):
    out = []
    alpha = DIG[base] + "x?"
    for n in range(1, maxlen + 1):
        for t in itertools.product(alpha, repeat=n):
            out.append("0" + base + "".join(t))
    return out


@functools.lru_cache(maxsize=None)
def _enum(tier):
    """deterministic enumerations shared by all cases of a tier"""
    bits = 6 if tier == "quick" else 8
    inm = [(v, m) for m in range(1 << bits) for v in range(1 << bits) if v & ~m == 0]
    outm = [(v, m) for m in range(1 << bits) for v in range(1 << bits) if v & ~m != 0]
    strs = {
        "b": _all_strings("b", 4 if tier == "quick" else 8),
        "x": _all_strings("x", 2 if tier == "quick" else 3),
        "o": _all_strings("o", 2 if tier == "quick" else 3),
    }
    abits = 4 if tier == "quick" else 8
    ainm = [(v, m) for m in range(1 << abits) for v in range(1 << abits) if v & ~m == 0]
    return {"in": inm, "out": outm, "strs": strs, "ain": ainm, "abits": abits}


@functools.lru_cache(maxsize=None)
def _cases(tier):
    e = _enum(tier)
    q = tier == "quick"
    cs = []
    for k in range(0, len(e["in"]), 81):
        cs.append({"fam": "pairs_in", "from": k})
    for k in range(0, len(e["out"]), 128):
        cs.append({"fam": "pairs_out", "from": k})
    if q:
        cs += [{"fam": "pairs_in_rand"}] * 12 + [{"fam": "pairs_out_rand"}] * 16
    for base in "bxo":
        for k in range(0, len(e["strs"][base]), 64):
            cs.append({"fam": "strings", "base": base, "from": k})
    cs += [{"fam": "strings_rand", "base": "b"}] * (16 if q else 60)
    cs += [{"fam": "strings_rand", "base": "x"}] * (6 if q else 30)
    cs += [{"fam": "strings_rand", "base": "o"}] * (4 if q else 20)
    cs += [{"fam": "multi"}] * (80 if q else 2000)
    for k in range(len(e["ain"])):
        cs.append({"fam": "array_pair", "k": k, "count": False})
        cs.append({"fam": "array_pair", "k": k, "count": True})
    cs += [{"fam": "array_rand"}] * (100 if q else 1500)
    cs += [{"fam": "array_multi"}] * (120 if q else 4000)
    return cs


def plan(tier):
    return {"ncases": len(_cases(tier)), "budget_s": 55 if tier == "quick" else 800}


def decorate(rng, s):
    """'_' at any position after the prefix, 'X' for 'x', upper-case prefix"""
    body = list(s[2:])
    if rng.random() < 0.5:
        for _ in range(rng.choice([1, 1, 2])):
            body.insert(rng.randint(0, len(body)), "_")
        if all(c == "_" for c in body):
            body.append("x")
    body = [("X" if (c == "x" and rng.random() < 0.3) else c) for c in body]
    body = [(c.upper() if (c in "abcdef" and rng.random() < 0.3) else c) for c in body]
    pre = s[:2].upper() if rng.random() < 0.2 else s[:2]
    return pre[0] + pre[1] + "".join(body)


def rand_string(rng, base, maxlen):
    n = rng.randint(1, maxlen)
    alpha = DIG[base]
    s = "0" + base + "".join(rng.choice("x?") if rng.random() < 0.4 else rng.choice(alpha) for _ in range(n))
    return decorate(rng, s)


def rand_pair(rng, bits, inside=True):
    m = rng.getrandbits(bits)
    v = rng.getrandbits(bits)
    if inside:
        return [v & m, m]
    if v & ~m == 0:
        free = [b for b in range(bits) if not (m >> b) & 1]
        if not free:
            m &= ~1
            free = [0]
        v |= 1 << rng.choice(free)
    return [v, m]


def _str_width(s):
    return covref.wild_parse(s)[2]


def gen_case(rng, tier, idx):
    cs = _cases(tier)
    c = dict(cs[idx % len(cs)])
    e = _enum(tier)
    fam = c["fam"]
    w = 8
    lead = False
    bins = []
    if fam == "pairs_in":
        bins = [["w%d" % i, {"k": "wild", "pats": [list(p)]}] for i, p in enumerate(e["in"][c["from"]:c["from"] + 81])]
    elif fam == "pairs_out":
        bins = [["w%d" % i, {"k": "wild", "pats": [list(p)]}] for i, p in enumerate(e["out"][c["from"]:c["from"] + 128])]
    elif fam in ("pairs_in_rand", "pairs_out_rand"):
        n = 81 if fam == "pairs_in_rand" else 128
        bins = [["w%d" % i, {"k": "wild", "pats": [rand_pair(rng, 8, fam == "pairs_in_rand")]}] for i in range(n)]
    elif fam == "strings":
        ss = e["strs"][c["base"]][c["from"]:c["from"] + 64]
        ss = [decorate(rng, s) if rng.random() < 0.5 else s for s in ss]
        w = max(8, max(_str_width(s) for s in ss))
        if rng.random() < 0.15 and w > 8:
            w -= rng.choice([1, 2])          # pattern wider than the type
        bins = [["w%d" % i, {"k": "wild", "pats": [s]}] for i, s in enumerate(ss)]
    elif fam == "strings_rand":
        ml = {"b": 8, "x": 3, "o": 3}[c["base"]]
        ss = [rand_string(rng, c["base"], ml) for _ in range(48)]
        w = max(rng.choice([4, 6, 8]), max(_str_width(s) for s in ss))
        bins = [["w%d" % i, {"k": "wild", "pats": [s]}] for i, s in enumerate(ss)]
    elif fam == "multi":
        w = rng.choice([4, 5, 6, 8, 8])
        for i in range(rng.choice([8, 16, 32])):
            pats = []
            for _ in range(rng.choice([1, 2, 2, 3])):
                r = rng.random()
                if r < 0.4:
                    pats.append(rand_pair(rng, w, True))
                elif r < 0.7:
                    pats.append(rand_string(rng, "b", w))
                elif r < 0.9:
                    pats.append(rand_string(rng, "x", 2))
                else:
                    pats.append(rand_string(rng, "o", 2))
            bins.append(["w%d" % i, {"k": "wild", "pats": pats}])
    elif fam == "array_pair":
        w = e["abits"]
        v, m = e["ain"][c["k"]]
        nv = sum(1 for u in range(1 << w) if (u & m) == v)
        n = rng.randint(1, nv + 1) if c["count"] else None
        lead = rng.random() < 0.5
        bins = [["a0", {"k": "warray", "n": n, "pats": [[v, m]]}]]
    elif fam == "array_rand":
        w = rng.choice([1, 2, 3, 4, 5, 6, 7, 8, 8])
        r = rng.random()
        if r < 0.4:
            pat = rand_pair(rng, w, True)
        elif r < 0.55:
            pat = rand_pair(rng, w, False)
        else:
            base = rng.choice("bbxo")
            pat = rand_string(rng, base, w if base == "b" else 2)
            # an array pattern never mentions bits the type does not have
            w = max(w, _str_width(pat))
        lead = rng.random() < 0.5
        n = rng.choice([None, None, 1, 2, 3, 5, 8, 300])
        bins = [["a0", {"k": "warray", "n": n, "pats": [pat]}]]
        if rng.random() < 0.3:
            bins.append(["a1", {"k": "warray", "n": rng.choice([None, 2]), "pats": [rand_pair(rng, w, True)]}])
    elif fam == "array_multi":
        w = rng.choice([3, 4, 5, 6, 8])
        pats = []
        top = 1 << (w - 1)
        for _ in range(rng.choice([2, 2, 3])):
            p = rand_pair(rng, w, True)
            if rng.random() < 0.8:
                # fix the type's top bit so that only the multi-pattern logic is exercised
                p = [(p[0] & ~top) | (top if rng.random() < 0.5 else 0), p[1] | top]
            pats.append(p if rng.random() < 0.6 else ("0b" + "".join(
                ("x" if not (p[1] >> b) & 1 else str((p[0] >> b) & 1)) for b in range(w - 1, -1, -1))))
        lead = rng.random() < 0.3
        bins = [["a0", {"k": "warray", "n": rng.choice([None, None, 2, 3, 4]), "pats": pats}]]
    if lead:
        # a plain bin in front: the array does not start at flat index 0
        bins.insert(0, ["lead", {"k": "bin", "items": [0]}])
    style = ("ws", "ws", "ws", "ro", "lm")[idx % 5]
    f = {"n": "a", "t": "bit", "w": w}
    cg = {"name": "cg_c19_%d" % idx, "style": style, "enums": {},
          "fields": [] if style == "lm" else [f], "ext": [f] if style == "lm" else [],
          "options": {}, "variants": [{"cps": [{"name": "cp", "src": "a", "bins": bins}], "crosses": []}]}
    return {"fam": fam, "cg": cg, "hseed": rng.getrandbits(32)}


# ------------------------------------------------- mechanisms (classification)
def lib_like_array_values(pats, w, low_only=True, bad_merge=True):
    """What the library's expansion yields when it has the known defects (for the
    SYMPTOM test only).  low_only: each pattern is expanded below the most
    significant set bit of its mask only (F14a); bad_merge: the per-pattern runs,
    sorted by start, are merged pairwise taking the SECOND run's end (F34).
    -> (ascending values, high_bits_active, overlap_truncated)"""
    runs = []
    high = False
    for p in pats:
        value, mask, _ = covref.wild_parse(p)
        nb = mask.bit_length()
        if low_only and nb < w:
            high = True
        cur = None
        for u in range(1 << (nb if low_only else max(nb, w))):
            if (u & mask) == (value & mask):
                if cur is not None and cur[1] + 1 == u:
                    cur[1] = u
                else:
                    cur = [u, u]
                    runs.append(cur)
    runs.sort(key=lambda r: r[0])
    trunc = False
    i = 0
    while i < len(runs):
        if i + 1 < len(runs) and runs[i][1] + 1 >= runs[i + 1][0]:
            if runs[i + 1][1] < runs[i][1]:
                if bad_merge:
                    trunc = True
                else:
                    runs[i + 1][1] = runs[i][1]
            runs[i] = [runs[i][0], runs[i + 1][1]]
            runs.pop(i + 1)
        else:
            i += 1
    vals = [v for a, b in runs for v in range(a, b + 1)]
    return vals, high, trunc


def exec_case(spec):
    import random
    import_vsc()
    cb.reset_registry()
    cg = spec["cg"]
    rng = random.Random(spec["hseed"])
    C = common.Counters()
    C.inc("fam_" + spec["fam"])
    cpspec = cg["variants"][0]["cps"][0]
    w = (cg["fields"] + cg["ext"])[0]["w"]
    res = {"counters": C, "nontrivial": False,
           "source": cb.to_source(cg) if len(cpspec["bins"]) <= 6 else
           "%d-bit coverpoint, %d wildcard bins, e.g. %s" % (w, len(cpspec["bins"]), "; ".join(
               "%s=%s" % (n, cb._bin_src(b)) for n, b in cpspec["bins"][:5]))}
    rcp = covref.RefCP(cpspec, cg)
    decls = cpspec["bins"]

    def viol(kind, msg, mechs=()):
        res.update(status=common.VIOL, kind=kind, msg=msg)
        f = cb.pick_finding("C19", set(mechs), PRIORITY)
        if f:
            res["finding"] = f
        return res

    try:
        lc = cb.LiveClass(cg)
        inst = lc.new(0)
    except Exception as e:
        reset_lib_state()
        if not raised_in_library(e):
            raise
        return viol("exception-construct:" + type(e).__name__, "constructing %s raised %r\n%s" % (
            [(n, b) for n, b in decls][:3], e, traceback.format_exc()[-500:]))
    cp = inst.model.coverpoint_l[0]
    nlib = cp.get_n_bins()
    names = [cp.get_bin_name(i) for i in range(nlib)]
    # bins of each declaration, recognised by name
    lib_idx = {}
    for dn, _ in decls:
        lib_idx[dn] = [i for i, n in enumerate(names) if n == dn or n.startswith(dn + "[")]
    ref_idx = {}
    for i, o in enumerate(rcp.origin):
        ref_idx.setdefault(o[0], []).append(i)
    if sum(len(v) for v in lib_idx.values()) != nlib:
        return viol("bin-names", "bins %s do not belong to any declaration %s" % (
            [n for n in names if not any(n == d or n.startswith(d + "[") for d, _ in decls)][:5], [d for d, _ in decls][:5]))
    aligned = all(lib_idx[dn] == ref_idx.get(dn, []) for dn, _ in decls)
    C.inc("bins", len(rcp.bins))
    C.inc("patterns", sum(len(b.get("pats", [])) for _, b in decls))
    # ---- sweep every value of the type, compare after every sample
    tv = list(rcp.tvalues)
    rng.shuffle(tv)
    extra = [rng.choice(tv) for _ in range(min(64, len(tv)))]
    lib_sets = [set() for _ in range(nlib)]
    prev = [0] * nlib
    exp = [0] * len(rcp.bins)
    first_bad = None
    for k, v in enumerate(tv + extra):
        try:
            inst.sample({"a": v})
        except Exception as e:
            reset_lib_state()
            if not raised_in_library(e):
                raise
            return viol("exception-sample:" + type(e).__name__, "sample(%d) raised %r\n%s" % (v, e, traceback.format_exc()[-400:]))
        cur = [cp.get_bin_hits(i) for i in range(nlib)]
        C.inc("samples")
        C.inc("membership_tests", len(rcp.bins))
        for i in rcp.hit_bins(v):
            exp[i] += 1
        if k < len(tv):
            for i in range(nlib):
                if cur[i] != prev[i]:
                    lib_sets[i].add(v)
                    if cur[i] != prev[i] + 1 and first_bad is None:
                        first_bad = "sample #%d value %d changed bin %s by %d" % (k, v, names[i], cur[i] - prev[i])
        if aligned and cur != exp and first_bad is None:
            d = [(names[i], a, b) for i, (a, b) in enumerate(zip(cur, exp)) if a != b][:4]
            first_bad = "after sample #%d value %d (0b%s): (bin, library, reference) %s" % (k, v, format(v, "0%db" % w), d)
        prev = cur
    # ---- per declaration: value sets seen by the sweep against the reference sets
    mechs = set()
    unexplained = []
    nontriv = 0
    tvset = set(rcp.tvalues)
    for dn, b in decls:
        ref_sets = [rcp.bins[i][1] for i in ref_idx.get(dn, [])]
        got_sets = [frozenset(lib_sets[i]) for i in lib_idx[dn]]
        if b["k"] in ("wild", "warray"):
            for p in b["pats"]:
                value, mask, _ = covref.wild_parse(p)
                tm = mask & ((1 << w) - 1)
                if 0 < bin(tm).count("1") < w:
                    nontriv += 1
        if got_sets == ref_sets:
            continue
        C.inc("declarations_differing")
        if b["k"] == "wild":
            # mechanism: (value, mask) pairs with value bits outside the mask never match
            bad = [p for p in b["pats"] if isinstance(p, (list, tuple)) and p[0] & ~p[1]]
            good = [p for p in b["pats"] if p not in bad]
            alt = frozenset(covref.wild_values(good, rcp.tvalues)) if good else frozenset()
            if bad and got_sets == [alt]:
                mechs.add(F_OUT)
                C.inc("explained_" + F_OUT)
                continue
            unexplained.append("bin %s=%s: hit by %s..., pattern matches %s..." % (
                dn, cb._bin_src(b), sorted(got_sets[0])[:12] if got_sets else None, sorted(ref_sets[0])[:12]))
        elif b["k"] == "warray":
            # smallest set of known mechanisms whose emulation reproduces the library's bins
            explained = False
            for low_only, bad_merge in ((True, False), (False, True), (True, True)):
                vals, high, trunc = lib_like_array_values(b["pats"], w, low_only, bad_merge)
                if not (high or trunc):
                    continue
                like = covref.partition(vals, b.get("n"))
                # values outside the type can never be sampled
                like_t = [frozenset(x for x in s if x in tvset) for s in like]
                if got_sets == like_t:
                    if high:
                        mechs.add(F_HIGH)
                        C.inc("explained_" + F_HIGH)
                    if trunc:
                        mechs.add(F_OVL)
                        C.inc("explained_" + F_OVL)
                    explained = True
                    break
            if explained:
                continue
            unexplained.append("array %s=%s: %d bins covering %s..., reference %d bins covering %s..." % (
                dn, cb._bin_src(b), len(got_sets), sorted(set().union(*got_sets))[:16] if got_sets else [],
                len(ref_sets), sorted(set().union(*ref_sets))[:16] if ref_sets else []))
        else:
            unexplained.append("bin %s: %s, reference %s" % (dn, got_sets[:2], ref_sets[:2]))
    C.inc("nontrivial_patterns", nontriv)
    res["nontrivial"] = nontriv > 0
    if unexplained:
        return viol("wildcard-match" if any(b["k"] == "wild" for _, b in decls) else "wildcard-array",
                    "; ".join(unexplained[:3]) + (" | " + first_bad if first_bad else ""))
    if mechs:
        return viol("known-mechanisms-only", "mechanisms %s; %s" % (sorted(mechs), first_bad or ""), mechs)
    if first_bad:
        # counters disagree although the value sets agree (e.g. double counting on repeats)
        return viol("wildcard-hits", first_bad)
    res["status"] = common.HELD
    return res


def min_observation(tot, status_n, tier):
    need = {"membership_tests": 2000000, "fam_pairs_in": 5, "fam_pairs_out": 5, "fam_strings": 5, "fam_multi": 20,
            "fam_array_pair": 50, "fam_array_multi": 20, "nontrivial_patterns": 3000}
    for k, v in need.items():
        if tot.get(k, 0) < v:
            return False, "monitor counter %s = %d < %d" % (k, tot.get(k, 0), v)
    return True, ""


def extra_coverage(tot, results, tier):
    e = _enum(tier)
    return {"evaluations": int(tot.get("membership_tests", 0)),
            "distinct_nontrivial": int(tot.get("nontrivial_patterns", 0)),
            "exhaustive": True,
            "exhaustive_part": "all %d (value,mask) pairs of <= %d bits (in-mask %d, value bits outside the mask %d) x all 256 "
                               "samples of an 8-bit coverpoint; all %d binary / %d hex / %d octal pattern strings of <= %d/%d/%d "
                               "digits; wildcard bin arrays for all %d in-mask pairs of %d bits, with and without a count" % (
                                   len(e["in"]) + len(e["out"]), 6 if tier == "quick" else 8, len(e["in"]), len(e["out"]),
                                   len(e["strs"]["b"]), len(e["strs"]["x"]), len(e["strs"]["o"]),
                                   4 if tier == "quick" else 8, 2 if tier == "quick" else 3, 2 if tier == "quick" else 3,
                                   len(e["ain"]), e["abits"])}
