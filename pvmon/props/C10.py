"""C10 - coverpoint bins count exactly the samples whose value they contain.

Monitor M6: the set-based reference model (covref.py) is compared with the
model getters (get_n_bins / get_bin_hits and the ignore / illegal
equivalents) after EVERY sample.  Per specification the sweep over all values
of the coverpoint's type (<= 8 bits) is exhaustive, once with the iff
condition true and once with it false, followed by a random sample sequence
with repeats and gated-off samples."""
import traceback

from .. import common
from .. import covbuild as cb
from .. import covref
from ..libstate import import_vsc, reset_lib_state, raised_in_library, quiet

LEVEL = "exploration"
RULE = ("case = one covergroup specification (1-3 coverpoints over bit/int/enum fields of <= 8 bits; explicit bins, "
        "bin arrays with/without count, auto-bins, ignore/illegal bins, iff by field / expression / callable; "
        "three sampling styles) + the exhaustive value sweep + a random sample sequence; distinct by the hash of "
        "the whole specification; non-trivial when at least one regular bin was hit AND at least one sample was "
        "required to change nothing (miss, gated off, or ignored value)")
ASSUMPTIONS = [
    "flat bin index order = declaration order of the bins dict, array elements in place, ascending",
    "an explicit bin / array whose every value is removed by ignore/illegal bins contributes no bin",
    "a bin-array count >= number of values gives one bin per value",
    "enum auto-bins are ordered by ascending enumerator value",
    "bin names are not part of C10 (only counted as naming observations)",
    "sample values are always values of the coverpoint's declared type",
    "wildcard bins are regular bins: ignore/illegal values are removed from them too (statement: 'never count toward regular bins')",
]
CASE_TIMEOUT = 120

F_POP0 = "exclude-pops-first-range"
F_WIGN = "ignore-not-applied-to-wildcard"


def plan(tier):
    return {"ncases": 2400 if tier == "quick" else 60000, "budget_s": 55 if tier == "quick" else 800}


# ---------------------------------------------------------------- generator
def gen_case(rng, tier, idx):
    style = ("ws", "ws", "ro", "lm")[idx % 4]
    enums = {}
    ncp = rng.choice([1, 1, 2, 3])
    fields, cps = [], []
    gates = []
    for g in range(rng.choice([1, 2])):
        gates.append({"n": "g%d" % g, "t": "bit", "w": rng.choice([1, 1, 2, 3])})
    for k in range(ncp):
        fam = (idx // 4 + k) % 6
        kinds = {0: ("bit",), 1: ("int",), 2: ("enum",)}.get(fam, ("bit", "bit", "int", "enum"))
        f = cb.gen_field(rng, "f%d" % k, kinds=kinds, enums=enums, tag="c10_")
        fields.append(f)
        tv = cb.field_values(f, enums)
        lo, hi = tv[0], tv[-1]
        cp = {"name": "cp%d" % k, "src": f["n"]}
        is_enum = f["t"] == "enum"
        r = rng.random()
        if r < (0.5 if is_enum else 0.22):
            cp["bins"] = None
            if not is_enum:
                cp["options"] = {"auto_bin_max": rng.choice([1, 2, 3, 5, 7, 16, 64, 64, 100, 300])}
                if rng.random() < 0.2:
                    del cp["options"]
        else:
            cp["bins"] = cb.gen_regular_bins(rng, lo, hi, allow_out=not is_enum, tvalues=tv if is_enum else None)
        if rng.random() < 0.6:
            ign, ill = cb.gen_excludes(rng, lo, hi, cp["bins"], tvalues=tv if is_enum else None)
            if ign:
                cp["ignore"] = ign
            if ill:
                cp["illegal"] = ill
        if f["t"] == "bit" and cp["bins"] and rng.random() < 0.07:
            # a wildcard declaration among the regular bins (top bit of the type fixed, value
            # inside the mask, one pattern: the C19 mechanisms stay out of this check)
            w = f["w"]
            bits = [rng.choice("01xx") for _ in range(w)]
            bits[0] = rng.choice("01")
            pat = "0b" + "".join(bits)
            if rng.random() < 0.5:
                cp["bins"].append(["wq", {"k": "wild", "pats": [pat]}])
            else:
                cp["bins"].append(["wq", {"k": "warray", "n": rng.choice([None, None, 2, 3]), "pats": [pat]}])
            if rng.random() < 0.5:
                mv = covref.wild_values([pat], tv)
                cp.setdefault("ignore", []).append(["igw", {"k": "bin", "items": [rng.choice(mv)]}])
        if rng.random() < 0.5:
            cand = gates + [x for x in fields if x["n"] != f["n"]]
            cp["iff"] = cb.gen_iff(rng, cand, enums, callable_only=(style == "lm"))
        if style == "ws" and rng.random() < 0.1:
            cp["lam"] = True
        cps.append(cp)
    allf = fields + gates
    if style == "lm":
        spec_fields, ext = [], allf
    else:
        # variables only read by lambdas are plain python variables
        lam_only = set()
        used_field = {c["src"] for c in cps if not c.get("lam")} | \
                     {c["iff"]["v"] for c in cps if c.get("iff") and not c["iff"].get("call")}
        for f in allf:
            if f["n"] not in used_field:
                lam_only.add(f["n"])
        spec_fields = [f for f in allf if f["n"] not in lam_only]
        ext = [f for f in allf if f["n"] in lam_only]
        if not spec_fields:
            spec_fields, ext = allf, []
    cg = {"name": "cg_c10_%d" % idx, "style": style, "enums": enums, "fields": spec_fields, "ext": ext,
          "options": {}, "variants": [{"cps": cps, "crosses": []}]}
    if rng.random() < 0.15:
        cg["options"]["auto_bin_max"] = rng.choice([2, 4, 10, 64])
    return {"cg": cg, "hseed": rng.getrandbits(32), "nrand": rng.choice([30, 60, 100] if tier == "quick" else [60, 150, 400])}


pop0_decls = cb.pop0_decls


# ------------------------------------------------------------------ executor
def _read(m):
    return cb.read_hits(m)[0]


def wild_excl_pred(shape):
    """Mechanism predicate of finding 'ignore-not-applied-to-wildcard': a coverpoint
    declares a wildcard bin / wildcard bin array and an ignore or illegal bin names
    a value of the coverpoint's type that the wildcard pattern matches."""
    for rcp in shape.cps:
        for _, b in (rcp.spec.get("bins") or []):
            if b["k"] in ("wild", "warray"):
                if any(covref.wild_match(v, b["pats"]) for v in rcp.excluded if v in set(rcp.tvalues)):
                    return True
    return False


def exec_case(spec):
    """The case is judged against the reference model.  Only when that yields an
    unclassified violation AND the input satisfies wild_excl_pred, the same case
    is replayed against the alternative model 'ignore/illegal values are not
    removed from wildcard bins': if the library agrees with that model on every
    sample, the violation carries the finding key F_WIGN."""
    res = _run_case(spec, True)
    if res.get("status") == common.VIOL and not res.get("finding"):
        if wild_excl_pred(covref.RefShape(spec["cg"], 0)):
            alt = _run_case(spec, False)
            res["counters"].inc("wildcard_ignore_replays")
            if alt.get("status") == common.HELD:
                res["finding"] = F_WIGN
                res["msg"] = (res.get("msg") or "") + " | library agrees on every sample with the model in which ignore/illegal " \
                    "values are not removed from wildcard bins"
            elif alt.get("status") == common.VIOL and alt.get("finding"):
                # against the alternative model only another known mechanism is left: the case shows both
                res["finding"] = cb.pick_finding("C10", {F_WIGN, alt["finding"]}, [F_POP0, F_WIGN])
                res["msg"] = (res.get("msg") or "") + " | two known mechanisms: %s and %s (%s)" % (
                    F_WIGN, alt["finding"], (alt.get("msg") or "")[:200])
    return res


def _run_case(spec, wild_excl):
    import random
    import_vsc()
    cb.reset_registry()
    cg = spec["cg"]
    rng = random.Random(spec["hseed"])
    src = cb.to_source(cg)
    C = common.Counters()
    res = {"counters": C, "nontrivial": False, "source": src}
    shape = covref.RefShape(cg, 0, wild_excl)
    tally = covref.Tally(shape)
    pop0 = [pop0_decls(c) for c in shape.cps]
    C.inc("coverpoints", len(shape.cps))
    C.inc("ref_bins", sum(len(c.bins) for c in shape.cps))
    if any(pop0):
        C.inc("specs_with_pop0_predicate")
    if any(c.empty_decls for c in shape.cps):
        C.inc("specs_with_emptied_declaration")

    def viol(kind, msg, finding=None):
        res.update(status=common.VIOL, kind=kind, msg=msg)
        if finding:
            res["finding"] = finding
        return res

    # ---- construction
    try:
        lc = cb.LiveClass(cg)
        inst = lc.new(0)
    except Exception as e:
        reset_lib_state()
        if not raised_in_library(e):
            raise
        tb = traceback.format_exc()[-700:]
        C.inc("construct_exceptions")
        f = F_POP0 if (any(pop0) and isinstance(e, IndexError) and "rangelist_model" in tb) else None
        return viol("exception-construct:" + type(e).__name__,
                    "constructing a legal covergroup raised %r (pop0 declarations: %s)\n%s" % (e, pop0, tb), f)
    m = inst.model
    # ---- static structure
    for ci, rcp in enumerate(shape.cps):
        cp = m.coverpoint_l[ci]
        got = (cp.get_n_bins(), cp.get_n_ignore_bins(), cp.get_n_illegal_bins())
        exp = (len(rcp.bins), len(rcp.ignore), len(rcp.illegal))
        if got != exp:
            return viol("nbins", "%s: (n_bins, n_ignore, n_illegal) = %s, reference %s; reference bins %s" % (
                rcp.name, got, exp, [(n, sorted(s)[:8]) for n, s in rcp.bins][:12]))
        for i, (n, _) in enumerate(rcp.bins):
            if cp.get_bin_name(i) != n:
                C.inc("naming_obs_array_index_not_local" if rcp.origin[i][0] is not None else "naming_obs_auto")
    fdesc = {f["n"]: f for f in cg["fields"] + cg["ext"]}
    allf = cg["fields"] + cg["ext"]
    enums = cg["enums"]
    pools = {f["n"]: [rng.choice(cb.field_values(f, enums)) for _ in range(4)] for f in allf}

    state = {"prev": _read(m), "n": 0, "hit": 0, "null": 0}
    # empirical value sets per bin (from the sweep with iff true)
    lib_sets = [[set() for _ in c.bins] for c in shape.cps]
    first_bad = []

    def step(values, sweep_cp=None):
        try:
            inst.sample(values)
        except Exception as e:
            reset_lib_state()
            if not raised_in_library(e):
                raise
            return "exception-sample:%s" % type(e).__name__, "sample(%s) raised %r\n%s" % (
                values, e, traceback.format_exc()[-500:])
        info = tally.sample(values)
        cur = _read(m)
        state["n"] += 1
        C.inc("samples")
        C.inc("bin_reads", sum(len(a) + len(b) + len(c) for a, b, c in cur))
        anyhit = False
        for ci, rcp in enumerate(shape.cps):
            exp = (tally.cp[ci], tally.ign[ci], tally.ill[ci])
            if info["hit"][rcp.name]:
                anyhit = True
            if sweep_cp == ci and info["gate"][rcp.name]:
                v = values[rcp.src]
                for i, (a, b) in enumerate(zip(state["prev"][ci][0], cur[ci][0])):
                    if b != a:
                        lib_sets[ci][i].add(v)
            for what, g, e in zip(("bins", "ignore", "illegal"), cur[ci], exp):
                if g != e and not first_bad:
                    d = [(i, x, y) for i, (x, y) in enumerate(zip(g, e)) if x != y][:6]
                    first_bad.append((ci, what, "after sample #%d %s (iff %s): %s %s hits differ at (index, library, reference) %s" % (
                        state["n"], values, info["gate"][rcp.name], rcp.name, what, d)))
        if anyhit:
            state["hit"] += 1
        else:
            state["null"] += 1
            C.inc("samples_required_to_change_nothing")
        state["prev"] = cur
        return None

    # ---- exhaustive sweeps
    for ci, rcp in enumerate(shape.cps):
        order = list(rcp.tvalues)
        if rng.random() < 0.5:
            rng.shuffle(order)
        for want in ((True, False) if rcp.iff is not None else (True,)):
            for v in order:
                values = cb.values_for(rng, allf, enums, pools)
                values[rcp.src] = v
                if not cb.force_iff(values, rcp.iff, want, fdesc, enums, rng):
                    continue
                if rcp.iff is not None and rcp.iff["v"] == rcp.src:
                    continue
                r = step(values, sweep_cp=ci if want else None)
                if r:
                    return viol(r[0], r[1])
            C.inc("sweeps_iff_true" if want else "sweeps_iff_false")
        C.inc("values_swept", len(order))
    # ---- value sets seen by the sweep
    set_bad = []
    for ci, rcp in enumerate(shape.cps):
        if rcp.iff is not None and rcp.iff["v"] == rcp.src:
            continue
        for i, (n, s) in enumerate(rcp.bins):
            inty = set(v for v in s if v in set(rcp.tvalues))
            if lib_sets[ci][i] != inty:
                set_bad.append((ci, i, n, sorted(lib_sets[ci][i])[:10], sorted(inty)[:10]))
    # ---- random phase (only meaningful while the tallies still agree)
    if not first_bad:
        for _ in range(spec["nrand"]):
            values = cb.values_for(rng, allf, enums, pools)
            r = step(values)
            if r:
                return viol(r[0], r[1])
            if first_bad:
                break
    res["nontrivial"] = state["hit"] > 0 and state["null"] > 0
    if first_bad or set_bad:
        ci = first_bad[0][0] if first_bad else set_bad[0][0]
        what = first_bad[0][1] if first_bad else "bins"
        rcp = shape.cps[ci]
        msg = (first_bad[0][2] if first_bad else "") + " | value sets (cp, bin, name, library, reference): %s" % (set_bad[:4],)
        finding = None
        # symptom of 'exclude-pops-first-range': only regular bins of a declaration
        # satisfying the predicate are affected, and they still hold exactly the
        # reference's values, each once - in another order
        if pop0[ci] and what == "bins" and all(b[0] == ci for b in set_bad) and all(f[0] == ci and f[1] == "bins" for f in first_bad):
            bad_idx = {b[1] for b in set_bad}
            decl_ok = all(rcp.origin[i][0] in pop0[ci] for i in bad_idx)
            tv = set(rcp.tvalues)
            rearranged = True
            for d in pop0[ci]:
                idxs = [i for i, o in enumerate(rcp.origin) if o[0] == d]
                lib_all = [v for i in idxs for v in lib_sets[ci][i]]
                ref_all = [v for i in idxs for v in rcp.bins[i][1] if v in tv]
                if sorted(lib_all) != sorted(ref_all):
                    rearranged = False
            if decl_ok and rearranged and bad_idx:
                finding = F_POP0
        return viol("hits:" + what if first_bad else "value-set", msg, finding)
    res["status"] = common.HELD
    return res


def min_observation(tot, status_n, tier):
    if tot.get("samples", 0) < 20000:
        return False, "fewer than 20000 samples compared"
    if tot.get("sweeps_iff_true", 0) < 100 or tot.get("sweeps_iff_false", 0) < 30:
        return False, "too few exhaustive sweeps"
    if tot.get("samples_required_to_change_nothing", 0) < 1000:
        return False, "too few samples that must change nothing"
    return True, ""


def extra_coverage(tot, results, tier):
    return {"exhaustive_part": "per specification: every value of each coverpoint's type (1..8 bits, signed and unsigned, "
                               "enums) sampled with iff true and again with iff false; %d values swept in %d+%d sweeps" % (
                                   tot.get("values_swept", 0), tot.get("sweeps_iff_true", 0), tot.get("sweeps_iff_false", 0)),
            "comparisons": int(tot.get("bin_reads", 0))}
