"""C03 - a call changes only what is random in it; everything else is a constant.

Monitors: M1 snapshots before/after every call (frame condition on every leaf of
the object tree that is not random in the call, on success and on failure);
reference solution set computed with the CURRENT non-random values, rand_mode
settings, rangelist and list contents; M2 pointwise equivalence, so a stale
constant in the lowered formula shows immediately."""
from .. import common, gen, judge as J, ref as R

LEVEL = "exploration"
RULE = ("case = object tree (own scalars, random and non-random sub-objects, list of objects, mutable rangelist and "
        "non-random list used by in-constraints) + history of 10-40 operations (assignments, rand_mode toggles, "
        "rangelist/list edits, randomize / randomize_with / vsc.randomize(subset) / sub-object randomize); "
        "non-trivial = at least one call with a non-random leaf in its tree and a solution set that is not the whole domain")
ASSUMPTIONS = ["reference semantics ref.py; a field passed explicitly to vsc.randomize() is random for that call",
               "exhaustive reference enumeration up to 10/14 random bits per call"]
CASE_TIMEOUT = 120
DECIDE = J.FRAME_KINDS | J.VALUE_KINDS


def plan(tier):
    return {"ncases": 480, "budget_s": 80} if tier == "quick" else {"ncases": 6000, "budget_s": 900}


def gen_case(rng, tier, idx):
    for _ in range(20):
        if rng.random() < 0.35:
            prog, g = gen.scalar_program(rng, max_bits=10)
            hist = gen.history(g, prog, ncalls=rng.randint(3, 8), free_unpassed=True)
            # sprinkle rand_mode toggles
            rands = [fd for fd in prog["classes"]["C0"]["fields"] if fd["r"] and fd["k"] == "int"]
            for _k in range(rng.randint(1, 4)):
                if rands:
                    hist.insert(rng.randrange(len(hist) + 1), {"op": "rand_mode", "o": "o0", "path": [rng.choice(rands)["n"]],
                                                                "v": rng.random() < 0.4})
        else:
            prog, g = gen.tree_program(rng, max_bits=10 if tier == "quick" else rng.choice([10, 12]), with_collections=True)
            hist = gen.tree_history(g, prog, nops=rng.randint(10, 24 if tier == "quick" else 40))
        try:
            gen.validate(prog)
        except Exception:
            continue
        return {"prog": prog, "hist": hist, "seed": rng.randint(1, 1 << 30), "max_points": 1 << (10 if tier == "quick" else 14)}
    return None


def exec_case(spec):
    res = J.judge(spec, DECIDE)
    if res.get("status") == common.INCONC:
        return res
    return J.finish(res, "C03", spec)


def min_observation(tot, status_n, tier):
    if tot.get("calls_ok", 0) < 50:
        return False, "fewer than 50 successful calls"
    if tot.get("hook_batches", 0) == 0:
        return False, "hook monitor observed nothing"
    return True, ""
