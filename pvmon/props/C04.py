"""C04 - list constraints hold on exactly the list the user sees.

Monitors: M1 snapshots of every list through all its read paths (iteration,
len(), .size, indexing) after every call and after every list edit; reference
list semantics (foreach bodies for every index/element of the FINAL list, sum,
product, unique, unique_vec, size, membership over exactly the exposed
elements; for random-size lists the size is a variable of the reference
enumeration, so the admissible sizes are known); M2 pointwise equivalence for
programs without random-size lists."""
from .. import common, gen, judge as J, ref as R

LEVEL = "exploration"
RULE = ("case = class with a scalar list (fixed size 0-3, random size up to 2-3, or non-random), optionally a second "
        "list and a list of objects, with foreach (element, index, both, index arithmetic guarded by if_then(i>0), "
        "over objects), sum, unique, unique_vec, size and membership constraints + history of calls with "
        "append/extend/assign/clear between them; non-trivial = a call whose list constraints exclude at least one "
        "assignment of the list's elements/size and admit at least one")
ASSUMPTIONS = ["reference semantics ref.py; sum is exact (wide enough never to overflow), product of an empty list is not judged",
               "exhaustive enumeration over (size, elements) up to 2^12 / 2^14 points per call"]
CASE_TIMEOUT = 120
DECIDE = J.VALUE_KINDS | J.LIST_KINDS | {"spurious-solve-failure", "unsat-returned-normally", "other-exception",
                                          "admissible-size-never-produced"}


def plan(tier):
    return {"ncases": 640, "budget_s": 80} if tier == "quick" else {"ncases": 8000, "budget_s": 900}


def gen_case(rng, tier, idx):
    if idx % 32 == 31:
        return gen_size_case(rng, tier)
    for _ in range(30):
        prog, g = gen.list_program(rng, dyn_fe=True)
        hist = gen.list_history(g, prog, ncalls=rng.randint(3, 6), obj_edits=True)
        prog = {k: v for k, v in prog.items() if not k.startswith("_")}
        try:
            gen.validate(prog)
        except Exception:
            continue
        return {"prog": prog, "hist": hist, "seed": rng.randint(1, 1 << 30), "max_points": 1 << (12 if tier == "quick" else 14)}
    return None


def gen_size_case(rng, tier):
    """tiny random-size list whose only constraints are on its size (values, ranges, relation to a scalar):
    every admissible size - including 0 and 1 - must be produced with non-zero probability"""
    m = rng.choice([2, 2, 3]) if tier == "quick" else rng.choice([2, 3, 3])
    fields = [{"n": "a", "k": "int", "w": 2, "s": False, "r": True},
              {"n": "l", "k": "list", "ek": "int", "w": 1, "s": False, "r": True, "rsz": True, "sz": 0, "szmax": m}]
    c = rng.random()
    st = []
    if c < 0.4:
        vals = sorted(set(rng.randint(0, m) for _ in range(rng.randint(1, 3))))
        st.append(["e", ["in", ["sz", ["l"]], [["c", v] for v in vals]]])
    elif c < 0.7:
        st.append(["e", ["b", "<=", ["sz", ["l"]], ["c", m]]])
        if rng.random() < 0.4:
            st.append(["e", ["b", "!=", ["sz", ["l"]], ["c", rng.randint(0, m)]]])
    else:
        st.append(["e", ["b", "<=", ["sz", ["l"]], ["c", m]]])
        st.append(["e", ["b", rng.choice(["<=", ">=", "=="]), ["sz", ["l"]], ["f", ["a"]]]])
    prog = {"enums": {}, "classes": {"T": {"base": None, "fields": fields, "blocks": [{"n": "c0", "st": st}]}}, "top": "T"}
    return {"prog": prog, "hist": [], "size_support": True, "seed": rng.randint(1, 1 << 30),
            "max_paths": 4000 if tier == "quick" else 60000, "max_seconds": 12 if tier == "quick" else 120}


def size_support(spec, cnt):
    import copy
    from .. import choice
    from ..libstate import quiet, reset_lib_state
    from ..session import Session
    viol = []
    sess = Session(spec["prog"], seed=spec["seed"])
    sess.new("o0")
    call = R.Call(spec["prog"], copy.deepcopy(sess.state["o0"]))
    sols = call.enumerate(limit=1 << 14)
    isz = [i for i, (p, t) in enumerate(call.rand_leaves) if t[0] == "size"][0]
    feas = sorted(set(s[isz] for s in sols))
    if not feas:
        return viol
    o = sess.live["o0"]
    hk = sess.hook

    def run(rs):
        with sess.vsc.raw_mode():
            l = o.l
        l.clear()
        o.a = 0
        o.set_randstate(rs)
        hk.start_call()
        try:
            with quiet():
                o.randomize()
        finally:
            hk.end_call()
            hk.release_all()
        return (len(l), l.size, len(list(l)))
    hk.light = True
    try:
        res = choice.enumerate_paths(run, max_paths=spec["max_paths"], max_seconds=spec["max_seconds"])
    finally:
        hk.light = False
    reset_lib_state()
    cnt.inc("m3_programs")
    cnt.inc("m3_paths", res["paths"])
    if res["abort"] or not res["complete"]:
        cnt.inc("m3_incomplete")
        return viol
    cnt.inc("m3_complete")
    cnt.inc("sizes_checked", len(feas))
    raised = [k for k in res["dist"] if isinstance(k, tuple) and k and k[0] == "raised"]
    if raised:
        viol.append(("other-exception", "complete enumeration: some choice paths of a satisfiable random-size list program raise %s "
                     "(admissible sizes %s)" % (raised, feas), None))
    bad = [k for k, v in res["dist"].items() if v > 0 and k not in raised and not (k[0] == k[1] == k[2])]
    if bad:
        viol.append(("list-views-disagree", "len(), size and iteration disagree on some path: %s" % bad[:3], None))
    prod = sorted(set(k[0] for k, v in res["dist"].items() if v > 0 and k not in raised))
    wrong = [s_ for s_ in prod if s_ not in feas]
    if wrong:
        viol.append(("value-violates-constraint", "final list length %s violates the size constraints (admissible %s)" % (wrong, feas), None))
    starved = [s_ for s_ in feas if s_ not in prod]
    if starved and not raised:
        viol.append(("admissible-size-never-produced", "complete enumeration of %d choice paths: the list never ends with size %s although "
                     "the size constraints admit %s (produced %s)" % (res["paths"], starved, feas, prod),
                     {"starved_field": (("l", "#sz"), ("int", 32, False)), "starved": starved, "feasible": feas, "ranges": None}))
    return viol


def exec_case(spec):
    if spec.get("size_support"):
        from .. import solvercase as SC
        cnt = common.Counters()
        try:
            viol = size_support(spec, cnt)
        except R.Corner as c:
            return {"status": common.INCONC, "kind": "corner", "msg": str(c)}
        res = {"counters": dict(cnt), "nontrivial": True, "source": SC.source_of(spec), "_viol": viol, "_evs": [], "_side": []}
        return J.finish(res, "C04", spec, observed_key="m3_complete")
    res = J.judge(spec, DECIDE)
    if res.get("status") == common.INCONC:
        return res
    return J.finish(res, "C04", spec)


def min_observation(tot, status_n, tier):
    if tot.get("calls_ok", 0) < 50:
        return False, "fewer than 50 successful calls"
    if tot.get("list_views_checked", 0) < 50:
        return False, "list read paths were not compared"
    return True, ""
