"""C04 - list constraints hold on exactly the list the user sees.

Monitors: M1 snapshots of every list through all its read paths (iteration,
len(), .size, indexing) after every call and after every list edit; reference
list semantics (foreach bodies for every index/element of the FINAL list, sum,
product, unique, unique_vec, size, membership over exactly the exposed
elements; for random-size lists the size is a variable of the reference
enumeration, so the admissible sizes are known); M2 pointwise equivalence for
programs without random-size lists."""
from .. import common, gen, judge as J, ref as R

LEVEL = "exploration"
RULE = ("case = class with a scalar list (fixed size 0-3, random size up to 2-3, or non-random), optionally a second "
        "list and a list of objects, with foreach (element, index, both, index arithmetic guarded by if_then(i>0), "
        "over objects), sum, unique, unique_vec, size and membership constraints + history of calls with "
        "append/extend/assign/clear between them; non-trivial = a call whose list constraints exclude at least one "
        "assignment of the list's elements/size and admit at least one")
ASSUMPTIONS = ["reference semantics ref.py; sum is exact (wide enough never to overflow), product of an empty list is not judged",
               "exhaustive enumeration over (size, elements) up to 2^12 / 2^14 points per call"]
CASE_TIMEOUT = 120
DECIDE = J.VALUE_KINDS | J.LIST_KINDS | {"spurious-solve-failure", "unsat-returned-normally", "other-exception"}


def plan(tier):
    return {"ncases": 640, "budget_s": 80} if tier == "quick" else {"ncases": 8000, "budget_s": 900}


def gen_case(rng, tier, idx):
    for _ in range(30):
        prog, g = gen.list_program(rng)
        hist = gen.list_history(g, prog, ncalls=rng.randint(3, 6))
        prog = {k: v for k, v in prog.items() if not k.startswith("_")}
        try:
            gen.validate(prog)
        except Exception:
            continue
        return {"prog": prog, "hist": hist, "seed": rng.randint(1, 1 << 30), "max_points": 1 << (12 if tier == "quick" else 14)}
    return None


def exec_case(spec):
    res = J.judge(spec, DECIDE)
    if res.get("status") == common.INCONC:
        return res
    return J.finish(res, "C04", spec)


def min_observation(tot, status_n, tier):
    if tot.get("calls_ok", 0) < 50:
        return False, "fewer than 50 successful calls"
    if tot.get("list_views_checked", 0) < 50:
        return False, "list read paths were not compared"
    return True, ""
