"""C13 - coverage reports and saved databases equal the in-memory coverage.

At random points of C12-style histories four views of ONE state are compared
structurally with the model getters (the view the other properties use):

  (1) vsc.get_coverage_report_model()
  (2) the parsed text of vsc.get_coverage_report(details=True)
  (3) the XML written by vsc.write_coverage_db(path), read with lxml
  (4) the same file read back through PyUCIS (XmlFactory.read + report builder)

Every covergroup type and instance, coverpoint, cross and bin (regular,
ignore, illegal) must appear with exactly the in-memory name and hit count;
percentages in (1) and (2) must agree with get_coverage()/get_inst_coverage();
a snapshot of every hit list before and after each call must be identical.
The aggregation/arithmetics oracle of C12 keeps running on the same history."""
import os
import shutil
import traceback

from .. import common
from .. import covbuild as cb
from ..libstate import import_vsc, reset_lib_state, raised_in_library, quiet
from . import C12

LEVEL = "exploration"
RULE = ("case = C12-style population (classes x parameterised variants x instances, some explicitly named) + "
        "interleaved history with 2-5 report points (always one at the end); at each report point all four views are "
        "taken of the same state; distinct by hash of (classes, history); non-trivial when a report point saw >= 2 "
        "instances or >= 2 types, at least one non-zero hit count and at least one ignore/illegal or cross bin")
ASSUMPTIONS = C12.ASSUMPTIONS + [
    "a type is reported under the class name (CovergroupModel.typename) or its internal name; an instance under its "
    "in-memory name, possibly with a uniquifying _<n> suffix added by the report",
    "UCIS XML holds instances only: the type data of view (4) is what PyUCIS reconstructs by summing instances; "
    "at_least and percentages are not compared on the XML views (names, kinds and counts are)",
    "text percentages are printed with 2 decimals (tolerance 0.006)",
]
CASE_TIMEOUT = 180
TOL = 1e-3

F_AL, F_W, F_BOTH, F_COLL = C12.F_AL, C12.F_W, C12.F_BOTH, C12.F_COLL
F_XW = "report-cross-weight-dropped"
F_DUP = "duplicate-bin-names"


def plan(tier):
    return {"ncases": 1200 if tier == "quick" else 40000, "budget_s": 55 if tier == "quick" else 800}


def gen_case(rng, tier, idx):
    mode = C12.case_mode(idx)
    cgs = cb.gen_population(rng, idx, "c13_", mode)
    hist = cb.gen_history(rng, cgs, nsamp=rng.choice([10, 20, 40, 60]))
    # explicit instance names for some instances
    k = 0
    for ev in hist:
        if ev[0] == "new":
            r = rng.random()
            if r < 0.35:
                ev.extend(["inst_%d_%d" % (idx, k), "options" if rng.random() < 0.6 else "set_name"])
            k += 1
    npts = rng.choice([1, 2, 3, 4])
    pos = sorted(rng.randrange(1, len(hist) + 1) for _ in range(npts))
    for off, p in enumerate(pos):
        hist.insert(p + off, ["report"])
    hist.append(["report"])
    return {"mode": mode, "cgs": cgs, "history": hist}


# ------------------------------------------------------------------- views
def mem_types(lw):
    """distinct type covergroup models in order of first appearance"""
    out = []
    for li in lw.insts:
        t = li.model.type_cg
        if t is not None and not any(t is x for x in out):
            out.append(t)
    return out


def mem_view(tcg):
    v = cb.read_model(tcg)
    v["names"] = {tcg.typename, tcg.name}
    v["insts"] = []
    for m in tcg.cg_inst_l:
        iv = cb.read_model(m)
        iv["name"] = m.name
        v["insts"].append(iv)
    return v


def _rv_cg(cg_r):
    return {
        "name": cg_r.name, "coverage": cg_r.coverage,
        "cps": [{"name": cp.name, "coverage": cp.coverage,
                 "bins": [(b.name, b.count) for b in cp.bins],
                 "ignore": [(b.name, b.count) for b in cp.ignore_bins],
                 "illegal": [(b.name, b.count) for b in cp.illegal_bins]} for cp in cg_r.coverpoints],
        "crs": [{"name": cr.name, "coverage": cr.coverage, "bins": [(b.name, b.count) for b in cr.bins]} for cr in cg_r.crosses],
    }


def report_view(rm):
    out = []
    for cg_r in rm.covergroups:
        v = _rv_cg(cg_r)
        v["insts"] = [_rv_cg(i) for i in cg_r.covergroups]
        out.append(v)
    return out


def parse_text(txt):
    types = []
    cont = item = lst = None
    for ln in txt.splitlines():
        s = ln.strip()
        if not s:
            continue
        if s.startswith("TYPE ") or s.startswith("INST "):
            name, pct = s[5:].rsplit(" : ", 1)
            cg = {"name": name, "coverage": float(pct.rstrip("%")), "cps": [], "crs": [], "insts": []}
            if s.startswith("TYPE "):
                if ln[:1] == " ":
                    raise ValueError("indented TYPE line %r" % ln)
                types.append(cg)
            else:
                types[-1]["insts"].append(cg)
            cont, item, lst = cg, None, None
        elif s.startswith("CVP "):
            name, pct = s[4:].rsplit(" : ", 1)
            item = {"name": name, "coverage": float(pct.rstrip("%")), "bins": [], "ignore": [], "illegal": []}
            cont["cps"].append(item)
            lst = None
        elif s.startswith("CROSS "):
            name, pct = s[6:].rsplit(" : ", 1)
            item = {"name": name, "coverage": float(pct.rstrip("%")), "bins": []}
            cont["crs"].append(item)
            lst = None
        elif s in ("Bins:", "IgnoreBins:", "IllegalBins:"):
            lst = item[{"Bins:": "bins", "IgnoreBins:": "ignore", "IllegalBins:": "illegal"}[s]]
        else:
            name, cnt = s.rsplit(" : ", 1)
            lst.append((name, int(cnt)))
    return types


def xml_view(path):
    from lxml import etree

    def ln(e):
        return etree.QName(e).localname if isinstance(e.tag, str) else None

    def kids(e, name):
        return [c for c in e if ln(c) == name]
    root = etree.parse(path).getroot()
    out = []
    for cgc in root.iter():
        if ln(cgc) != "covergroupCoverage":
            continue
        t = {"name": None, "insts": []}
        for ci in kids(cgc, "cgInstance"):
            cgid = kids(ci, "cgId")
            if cgid:
                t["name"] = cgid[0].get("cgName")
            iv = {"name": ci.get("name"), "cps": [], "crs": []}
            for cp in kids(ci, "coverpoint"):
                c = {"name": cp.get("name"), "bins": [], "ignore": [], "illegal": []}
                for b in kids(cp, "coverpointBin"):
                    cnt = None
                    for r in kids(b, "range") + kids(b, "sequence"):
                        for cc in kids(r, "contents"):
                            cnt = int(cc.get("coverageCount"))
                    kind = {"bins": "bins", "default": "bins", "ignore": "ignore", "illegal": "illegal"}.get(b.get("type"), "?" + str(b.get("type")))
                    c.setdefault(kind, []).append((b.get("name"), cnt))
                iv["cps"].append(c)
            for cr in kids(ci, "cross"):
                c = {"name": cr.get("name"), "bins": [], "exprs": [x.text.strip() for x in kids(cr, "crossExpr")]}
                for b in kids(cr, "crossBin"):
                    cnt = None
                    for cc in kids(b, "contents"):
                        cnt = int(cc.get("coverageCount"))
                    c["bins"].append((b.get("name"), cnt))
                iv["crs"].append(c)
            t["insts"].append(iv)
        out.append(t)
    return out


# -------------------------------------------------------------- comparison
def _diff_items(mem, rep, where):
    if [c["name"] for c in mem["cps"]] != [c["name"] for c in rep["cps"]]:
        return "%s: coverpoints %s, in memory %s" % (where, [c["name"] for c in rep["cps"]], [c["name"] for c in mem["cps"]])
    if [c["name"] for c in mem["crs"]] != [c["name"] for c in rep["crs"]]:
        return "%s: crosses %s, in memory %s" % (where, [c["name"] for c in rep["crs"]], [c["name"] for c in mem["crs"]])
    for a, b in zip(mem["cps"], rep["cps"]):
        for kind in ("bins", "ignore", "illegal"):
            x, y = list(a[kind]), list(b.get(kind, []))
            if x != y:
                d = [(i, p, q) for i, (p, q) in enumerate(zip(x, y)) if p != q][:4]
                return "%s coverpoint %s %s: %d entries, in memory %d; first differences (index, memory, view) %s" % (
                    where, a["name"], kind, len(y), len(x), d)
    for a, b in zip(mem["crs"], rep["crs"]):
        x, y = list(a["bins"]), list(b["bins"])
        if x != y:
            d = [(i, p, q) for i, (p, q) in enumerate(zip(x, y)) if p != q][:4]
            return "%s cross %s: %d bins, in memory %d; first differences (index, memory, view) %s" % (
                where, a["name"], len(y), len(x), d)
    return None


def _inst_name_ok(mem_name, rep_name):
    if rep_name == mem_name:
        return True
    if rep_name and mem_name and rep_name.startswith(mem_name + "_") and rep_name[len(mem_name) + 1:].isdigit():
        return True
    return False


def diff_type(mem, rep, type_level=True):
    if rep["name"] not in mem["names"]:
        return "type is called %r, in memory %s" % (rep["name"], sorted(mem["names"]))
    if type_level:
        d = _diff_items(mem, rep, "type %s" % rep["name"])
        if d:
            return d
    if len(mem["insts"]) != len(rep["insts"]):
        return "type %s: %d instances, in memory %d" % (rep["name"], len(rep["insts"]), len(mem["insts"]))
    for k, (a, b) in enumerate(zip(mem["insts"], rep["insts"])):
        if not _inst_name_ok(a["name"], b["name"]):
            return "type %s instance #%d is called %r, in memory %r" % (rep["name"], k, b["name"], a["name"])
        d = _diff_items(a, b, "type %s instance %s" % (rep["name"], b["name"]))
        if d:
            return d
    return None


def match_types(mems, reps, type_level=True):
    """-> (None, pairs) or (message, None)"""
    used = [False] * len(reps)
    pairs = []
    for mi, mem in enumerate(mems):
        hit = None
        first = None
        for ri, rep in enumerate(reps):
            if used[ri]:
                continue
            d = diff_type(mem, rep, type_level)
            if d is None:
                hit = ri
                break
            if first is None and rep["name"] in mem["names"]:
                first = d
        if hit is None:
            return (first or "type %s (%d instances) is missing from the view (%d types there: %s)" % (
                sorted(mem["names"]), len(mem["insts"]), len(reps), [r["name"] for r in reps])), None
        used[hit] = True
        pairs.append((mi, hit))
    if not all(used):
        extra = [reps[i]["name"] for i, u in enumerate(used) if not u]
        return "view contains covergroup types that are not in memory: %s" % extra, None
    names = [i["name"] for r in reps for i in r["insts"]]
    if len(set(names)) != len(names):
        return "instance names in the view are not unique: %s" % names, None
    return None, pairs


def merge_dup_names(mem):
    """type-level bins of each coverpoint and cross merged by name (first position kept, counts added)"""
    out = dict(mem)
    for grp, kinds in (("cps", ("bins", "ignore", "illegal")), ("crs", ("bins",))):
        items = []
        for c in mem[grp]:
            c2 = dict(c)
            for kind in kinds:
                seen = {}
                order = []
                for n, h in c[kind]:
                    if n in seen:
                        seen[n] += h
                    else:
                        seen[n] = h
                        order.append(n)
                c2[kind] = [(n, seen[n]) for n in order]
            items.append(c2)
        out[grp] = items
    return out


def state_snapshot(lw):
    snap = []
    for t in mem_types(lw):
        snap.append(cb.read_hits(t))
        for m in t.cg_inst_l:
            snap.append(cb.read_hits(m))
    for li in lw.insts:
        snap.append(cb.read_hits(li.model))
    return snap


class Reporter(object):
    def __init__(self, C, tmpdir):
        self.C = C
        self.tmpdir = tmpdir
        self.nfile = 0
        self.rich_points = 0
        self.mech = set()
        self.mech_msgs = []

    def pct_cg(self, what, view_val, getter_val, tally, tol):
        """covergroup-level percentage; additionally recognises the mechanism
        'report-cross-weight-dropped' (the report weighs every cross 1)"""
        r = self.pct(what, view_val, getter_val, tally.coverage(), tol)
        if r is None:
            return None
        sh = tally.shape
        wc, wx = cb.effective_weights(sh)
        if sh.crosses and any(w != 1 for w in wx):
            cps, crs = tally.item_coverages()
            num = sum(w * c for w, c in zip(wc, cps)) + sum(crs)
            alt = num / (sum(wc) + len(crs))
            if abs(view_val - alt) <= tol:
                self.mech.add(F_XW)
                self.C.inc("explained_" + F_XW)
                if len(self.mech_msgs) < 2:
                    self.mech_msgs.append("%s: report says %r, getter %r; cross weights %s counted as 1 [%s]" % (
                        what, view_val, getter_val, wx, F_XW))
                return None
        return r

    def pct(self, what, view_val, getter_val, ref_val, tol):
        """report percentage against the getter; a difference is attributable to the
        getter only when the getter itself deviates from the reference (then the
        C12 monitor has classified - or rejected - it at this very event)"""
        self.C.inc("percentages_compared")
        if abs(view_val - getter_val) <= tol:
            return None
        if ref_val is not None and abs(getter_val - ref_val) > TOL:
            self.C.inc("percentage_diffs_attributed_to_getter")
            return None
        return "report-percentage", "%s: view says %r, getter says %r (reference %r)" % (what, view_val, getter_val, ref_val)

    def check_pcts(self, lw, mon, mems_t, reps, pairs, tol, label):
        for mi, ri in pairs:
            tcg = mems_t[mi]
            rep = reps[ri]
            members = [k for k, li in enumerate(lw.insts) if li.model.type_cg is tcg]
            t_type = lw.ref.type_tally(lw.ref.type_key(members[0]))
            with quiet():
                g = lw.insts[members[0]].cg.get_coverage()
            r = self.pct_cg("%s TYPE %s" % (label, rep["name"]), rep["coverage"], g, t_type, tol)
            if r:
                return r
            cps, crs = t_type.item_coverages()
            for k, cp in enumerate(rep["cps"]):
                r = self.pct("%s TYPE %s CVP %s" % (label, rep["name"], cp["name"]), cp["coverage"],
                             tcg.coverpoint_l[k].get_inst_coverage(), cps[k], tol)
                if r:
                    return r
            for k, cr in enumerate(rep["crs"]):
                r = self.pct("%s TYPE %s CROSS %s" % (label, rep["name"], cr["name"]), cr["coverage"],
                             tcg.cross_l[k].get_coverage(), crs[k], tol)
                if r:
                    return r
            for pos, m in enumerate(tcg.cg_inst_l):
                idx = [k for k, li in enumerate(lw.insts) if li.model is m]
                if not idx:
                    continue
                li = lw.insts[idx[0]]
                t_inst = lw.ref.insts[idx[0]][2]
                irep = rep["insts"][pos]
                with quiet():
                    g = li.cg.get_inst_coverage()
                r = self.pct_cg("%s INST %s" % (label, irep["name"]), irep["coverage"], g, t_inst, tol)
                if r:
                    return r
                cps, crs = t_inst.item_coverages()
                for k, cp in enumerate(irep["cps"]):
                    r = self.pct("%s INST %s CVP %s" % (label, irep["name"], cp["name"]), cp["coverage"],
                                 li.cp_objs[k].get_inst_coverage(), cps[k], tol)
                    if r:
                        return r
                for k, cr in enumerate(irep["crs"]):
                    r = self.pct("%s INST %s CROSS %s" % (label, irep["name"], cr["name"]), cr["coverage"],
                                 li.cr_objs[k].get_coverage(), crs[k], tol)
                    if r:
                        return r
        return None

    def __call__(self, lw, mon, ev, ev_i):
        vsc = import_vsc()
        C = self.C
        if not lw.insts:
            return None
        C.inc("report_points")
        mems_t = mem_types(lw)
        mems = [mem_view(t) for t in mems_t]
        snap0 = state_snapshot(lw)
        nbins = sum(len(c["bins"]) + len(c["ignore"]) + len(c["illegal"]) for m in mems for v in [m] + m["insts"] for c in v["cps"]) + \
            sum(len(c["bins"]) for m in mems for v in [m] + m["insts"] for c in v["crs"])
        rich = (len(lw.insts) >= 2 or len(mems) >= 2) and \
            any(h for m in mems for c in m["cps"] for _, h in c["bins"]) and \
            (any(c["ignore"] or c["illegal"] for m in mems for c in m["cps"]) or any(m["crs"] for m in mems))
        if rich:
            self.rich_points += 1
            C.inc("rich_report_points")

        def unchanged(after):
            if state_snapshot(lw) != snap0:
                return "report-changed-state", "a hit list changed while %s was produced" % after
            return None

        def lib(call, what):
            try:
                with quiet():
                    return call(), None
            except Exception as e:
                reset_lib_state()
                if not raised_in_library(e):
                    raise
                return None, ("exception-report:" + type(e).__name__, "%s raised %r\n%s" % (what, e, traceback.format_exc()[-500:]))

        # (1) report model
        rm, err = lib(vsc.get_coverage_report_model, "get_coverage_report_model()")
        if err:
            return err
        reps = report_view(rm)
        msg, pairs = match_types(mems, reps)
        C.inc("view_bins_compared", nbins)
        if msg:
            return "report-model", "get_coverage_report_model(): " + msg
        r = unchanged("the report model") or self.check_pcts(lw, mon, mems_t, reps, pairs, TOL, "report model")
        if r:
            return r
        C.inc("views_report_model")
        # (2) text
        txt, err = lib(lambda: vsc.get_coverage_report(details=True), "get_coverage_report(details=True)")
        if err:
            return err
        try:
            treps = parse_text(txt)
        except Exception as e:
            return "report-text-unparsable", "%r in\n%s" % (e, txt[:600])
        msg, pairs = match_types(mems, treps)
        C.inc("view_bins_compared", nbins)
        if msg:
            return "report-text", "get_coverage_report(details=True): " + msg
        r = unchanged("the text report") or self.check_pcts(lw, mon, mems_t, treps, pairs, 0.006, "text report")
        if r:
            return r
        C.inc("views_text")
        # (3) + (4) XML
        self.nfile += 1
        path = os.path.join(self.tmpdir, "cov_%d.xml" % self.nfile)
        try:
            _, err = lib(lambda: vsc.write_coverage_db(path), "write_coverage_db()")
            if err:
                return err
            r = unchanged("the XML database")
            if r:
                return r
            xreps = xml_view(path)
            msg, _ = match_types(mems, xreps, type_level=False)
            C.inc("view_bins_compared", nbins)
            if msg:
                return "xml-lxml", "write_coverage_db() read with lxml: " + msg
            C.inc("views_xml_lxml")
            from ucis.xml.xml_factory import XmlFactory
            from ucis.report.coverage_report_builder import CoverageReportBuilder
            rb, err = lib(lambda: CoverageReportBuilder.build(XmlFactory.read(path)), "reading the XML back with PyUCIS")
            if err:
                return err
            ureps = report_view(rb)
            msg, _ = match_types(mems, ureps)
            C.inc("view_bins_compared", nbins)
            if msg:
                # mechanism 'duplicate-bin-names': PyUCIS rebuilds the type data keyed by
                # bin name, so two bins of one coverpoint that carry the same name are
                # merged (counts added).  Symptom: the read-back equals the in-memory data
                # after exactly that merge; predicate: see covbuild.mixed_run_collection
                pred = any(cb.mixed_run_collection(c) for _, _, t in lw.ref.insts for c in t.shape.cps)
                merged = [merge_dup_names(m) for m in mems]
                if pred and merged != mems and match_types(merged, ureps)[0] is None:
                    self.mech.add(F_DUP)
                    C.inc("explained_" + F_DUP)
                    if len(self.mech_msgs) < 2:
                        self.mech_msgs.append("XML read-back: %s [%s]" % (msg, F_DUP))
                else:
                    return "xml-readback", "write_coverage_db() read back with PyUCIS: " + msg
            C.inc("views_xml_pyucis")
        finally:
            try:
                os.remove(path)
            except OSError:
                pass
        return unchanged("the XML read-back")


def exec_case(spec):
    import_vsc()
    cb.reset_registry()
    C = common.Counters()
    res = {"counters": C, "nontrivial": False, "source": C12.source_of(spec)}
    C.inc("mode_" + spec["mode"])
    tmpdir = os.path.join("/tmp", "pvmon-cov-%d" % os.getpid())
    os.makedirs(tmpdir, exist_ok=True)
    rep = Reporter(C, tmpdir)
    try:
        out = C12.run_history(spec, res, C, on_event=rep)
    finally:
        shutil.rmtree(tmpdir, ignore_errors=True)
    if out is None:
        return res
    lw, mon = out
    res["nontrivial"] = rep.rich_points > 0
    f = mon.finding("C13", rep.mech)
    if f:
        res.update(status=common.VIOL, kind="known-mechanisms-only", finding=f,
                   msg="; ".join(rep.mech_msgs + mon.mech_msgs) + " (mechanisms seen: %s; names, counts, state preservation "
                       "and all other percentages held)" % sorted(set(mon.mech) | rep.mech))
    else:
        res["status"] = common.HELD
    return res


def min_observation(tot, status_n, tier):
    need = {"report_points": 1000, "rich_report_points": 200, "views_report_model": 500, "views_text": 500,
            "views_xml_lxml": 500, "views_xml_pyucis": 500, "percentages_compared": 10000}
    for k, v in need.items():
        if tot.get(k, 0) < v:
            return False, "monitor counter %s = %d < %d" % (k, tot.get(k, 0), v)
    return True, ""


def extra_coverage(tot, results, tier):
    return {"comparisons": int(tot.get("view_bins_compared", 0) + tot.get("percentages_compared", 0))}
