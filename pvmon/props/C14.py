"""C14 - no legal value is starved: inferred value ranges over-approximate the solutions.

Monitors: (hook) at every solver batch the bound map actually used by the call
is copied; for every random field the inferred range list must contain the
projection of the exhaustively enumerated reference solution set, and a field
no constraint mentions must range over its whole type.  (M3) for tiny
programs the real randomize() is run once per path of choice points of its
RandState (complete enumeration, exact probabilities): a feasible value with
probability exactly 0 is starved.  Sampling-only evidence is never a verdict."""
from fractions import Fraction

from .. import common, gen, judge as J, ref as R, oracle as O, solvercase as SC, choice
from ..libstate import quiet, reset_lib_state
from ..session import Session, snap_get
from ..findings import classify

LEVEL = "exploration"
RULE = ("case = program biased to statement-level relational / in constraints (literals, non-random fields, expressions "
        "mixing random and non-random fields, chains between random fields, overlapping/adjacent/unsorted rangelists, "
        "signed fields with negative bounds, enum fields, disabled blocks, constraints under if/implies) + history with "
        "previous values left in random fields; a quarter of the cases are tiny (<= 4-5 random bits) and are additionally "
        "enumerated completely over the choice points of the RandState. non-trivial = the hook reported, for at least one "
        "random field, an inferred range strictly narrower than its type (a propagator really ran)")
ASSUMPTIONS = ["feasibility decided by exhaustive reference enumeration (ref.py)",
               "exact starvation verdicts only from COMPLETE choice enumerations; capped enumerations give lower bounds only"]
CASE_TIMEOUT = 240
DECIDE = {"range-misses-feasible-value", "unmentioned-field-narrowed", "feasible-value-starved"}


def plan(tier):
    return {"ncases": 800, "budget_s": 85} if tier == "quick" else {"ncases": 6000, "budget_s": 1200}


def gen_case(rng, tier, idx):
    tiny = (idx % 4 == 0)
    for _ in range(30):
        prog, g = gen.bounds_program(rng, max_bits=10 if tier == "quick" else 12, tiny=tiny)
        if prog is None:
            continue
        try:
            gen.validate(prog)
        except Exception:
            continue
        hist = gen.bounds_history(g, prog, ncalls=rng.randint(2, 5))
        return {"prog": prog, "hist": hist, "tiny": tiny, "seed": rng.randint(1, 1 << 30),
                "max_points": 1 << (10 if tier == "quick" else 13),
                "max_paths": 6000 if tier == "quick" else 60000, "max_seconds": 20 if tier == "quick" else 120}
    return None


def mentioned(call):
    """absolute paths of leaves named by some active statement"""
    out = set()

    def we(sp, e):
        if isinstance(e, list) and e:
            if e[0] in ("f", "ps", "bs") and isinstance(e[1], list):
                out.add(tuple(sp) + tuple(e[1]))
            for x in e[1:]:
                if isinstance(x, list):
                    we(sp, x)
    for sp, s, org in call.stmts:
        we(sp, s)
    return out


def per_call(sess, ev, add, cnt):
    call = ev.get("call")
    sols = ev.get("sols")
    recs = ev.get("records") or []
    if call is None or sols is None or len(recs) != 1 or not sols:
        return
    rec = recs[0]
    lm = ev.get("leaf_models") or {}
    by_path = {p: fid for fid, (p, t) in lm.items()}
    head = SC.src_op(ev["op"]).split("\n")[0]
    ment = mentioned(call)
    narrowed = False
    for i, (p, t) in enumerate(call.rand_leaves):
        fid = by_path.get(p)
        if fid is None or fid not in rec.bounds:
            continue
        rl = rec.bounds[fid]
        cnt.inc("ranges_checked")
        dom = [O.to_int(sess.prog, t, v) for v in R.leaf_domain(sess.prog, t)]
        inside = [v for v in dom if any(lo <= v <= hi for lo, hi in rl)]
        if len(inside) < len(dom):
            narrowed = True
            cnt.inc("ranges_narrowed")
        proj = set(O.to_int(sess.prog, t, s[i]) for s in sols)
        missing = sorted(v for v in proj if not any(lo <= v <= hi for lo, hi in rl))
        if missing:
            add("range-misses-feasible-value", "%s: inferred range of %s is %s but the feasible values include %s" % (
                head, ".".join(map(str, p)), rl, missing[:8]))
        elif p not in ment and len(inside) < len(dom):
            add("unmentioned-field-narrowed", "%s: no constraint mentions %s but its inferred range is %s" % (
                head, ".".join(map(str, p)), rl))
    if narrowed:
        ev["_narrowed"] = True
        cnt.inc("calls_with_narrowed_range")


def m3_support(spec, cnt):
    """complete choice enumeration of the first call of a tiny program, from a fresh object"""
    viol = []
    sess = Session(spec["prog"], seed=spec.get("seed", 1))
    sess.new("o0")
    st = sess.state["o0"]
    call = R.Call(spec["prog"], __import__("copy").deepcopy(st))
    try:
        sols = call.enumerate(limit=4096)
    except R.Corner:
        return viol, None
    if not sols:
        return viol, None
    o = sess.live["o0"]
    paths = [p for p, _ in call.rand_leaves]
    init = {p: R.get_at(st, p) for p in paths}

    hk = sess.hook
    first_bounds = {}

    def run(rs):
        # same starting values on every path
        for p, v in init.items():
            parent = sess.live_at("o0", list(p[:-1]))
            fd = R.decl_at(spec["prog"], st, p)
            setattr(parent, p[-1], sess.bt.enums[fd["e"]][v] if fd["k"] == "enum" else v)
        o.set_randstate(rs)
        hk.start_call()
        try:
            with quiet():
                o.randomize()
        finally:
            recs = hk.end_call()
            if recs and not first_bounds:
                for p in paths:
                    fm = sess.model_at("o0", list(p))
                    if fm is not None and id(fm) in recs[0].bounds:
                        first_bounds[p] = recs[0].bounds[id(fm)]
            hk.release_all()
        snap = sess.snapshot("o0")
        return tuple(snap_get(snap, p) for p in paths)
    hk.light = True
    try:
        res = choice.enumerate_paths(run, max_paths=spec.get("max_paths", 6000), max_seconds=spec.get("max_seconds", 20))
    finally:
        hk.light = False
    reset_lib_state()
    cnt.inc("m3_programs")
    cnt.inc("m3_paths", res["paths"])
    if res["abort"]:
        cnt.inc("m3_aborted")
        return viol, res
    if not res["complete"]:
        cnt.inc("m3_incomplete")
        return viol, res
    cnt.inc("m3_complete")
    if res["total"] != 1:
        viol.append(("feasible-value-starved", "choice enumeration probabilities sum to %s, not 1" % res["total"], None))
    support = [k for k, v in res["dist"].items() if v > 0 and not (isinstance(k, tuple) and k and k[0] == "raised")]
    for i, (p, t) in enumerate(call.rand_leaves):
        feas = set(s[i] for s in sols)
        prod = set(k[i] for k in support)
        starved = sorted(feas - prod, key=str)
        cnt.inc("m3_values_checked", len(feas))
        if starved:
            viol.append(("feasible-value-starved",
                         "complete enumeration of %d choice paths of o0.randomize(): field %s never takes %s although these values "
                         "occur in solutions (feasible %s, produced %s)" % (
                             res["paths"], ".".join(map(str, p)), starved, sorted(feas, key=str), sorted(prod, key=str)),
                         {"call": call, "starved_field": (p, t), "starved": starved, "feasible": sorted(feas, key=str),
                          "ranges": first_bounds.get(p)}))
    return viol, res


def exec_case(spec):
    res = J.judge(spec, DECIDE, per_call=per_call, m2=False)
    if res.get("status") == common.INCONC:
        return res
    res["nontrivial"] = any(ev.get("_narrowed") for ev in res.get("_evs", []))
    if spec.get("tiny"):
        cnt = common.Counters()
        try:
            v3, r3 = m3_support(spec, cnt)
        except R.Corner:
            v3, r3 = [], None
        for k, v in cnt.items():
            res["counters"][k] = res["counters"].get(k, 0) + v
        res["_viol"].extend(v3)
    return J.finish(res, "C14", spec, observed_key="ranges_checked")


def min_observation(tot, status_n, tier):
    if tot.get("ranges_checked", 0) < 200:
        return False, "fewer than 200 inferred ranges compared (hook missing?)"
    if tot.get("calls_with_narrowed_range", 0) * 2 < max(1, tot.get("agree_sat", 0)):
        return False, "fewer than 50%% of the satisfiable calls had a narrowed range (%s of %s): the propagators were not exercised" % (
            tot.get("calls_with_narrowed_range", 0), tot.get("agree_sat", 0))
    if tot.get("m3_complete", 0) < 10:
        return False, "fewer than 10 complete choice enumerations"
    return True, ""
