"""C16 - a failed or aborted call does not poison later calls.

Fault injection at user-callback positions (the fault_sequences quantifier):
each statement index of a constraint body at construction; inside
randomize_with blocks at each nesting depth (plain, if_then, foreach, implies);
pre_randomize / post_randomize of each object of the tree; plus calls made
unsatisfiable (plain, with foreach / dist rewrites active, solve_fail_debug=1).

Monitors: M4 idle-state / leak monitor right after the faulted call (the five
process-wide stacks named by the property are empty; no field model of the
object tree holds a solver handle; the constraint tree contains no
ConstraintOverrideModel and has the structural fingerprint it had before the
call), and the twin comparison: the scripted continuation (re-seeded
identically after the fault point: further randomizations, construction and
randomization of new instances and of a NEW class that uses solve_order) must
produce exactly the trace of a pristine run in which the failed call never
happened."""
import copy

from .. import common, gen, ref as R, build as B, solvercase as SC
from ..libstate import quiet, reset_lib_state, non_idle, raised_in_library
from ..session import Session, model_handles
from ..findings import classify

LEVEL = "fault_enumeration"
RULE = ("case = program (object tree / list with foreach / dist / solve_order) + a fault (position enumerated over: "
        "statement index of a constraint body at construction, raise inside randomize_with at depth plain / if_then / "
        "foreach / implies, pre_randomize or post_randomize of an object of the tree, unsatisfiable randomize / "
        "randomize_with / vsc.randomize_with, with and without solve_fail_debug) + continuation of 6-10 operations "
        "run twice (faulted session vs pristine session, both re-seeded after the fault point); non-trivial = the fault "
        "really raised inside the library call and the continuation contains at least 3 successful randomizations")
ASSUMPTIONS = ["the pristine twin runs first in the same worker process from a reset construction state",
               "for faults that strike after the solve (exception in a randomize_with block, whose __exit__ still randomizes, or in "
               "post_randomize) the twin makes the same call without the exception",
               "values of random fields may differ right after the aborted call; the comparison starts with the first "
               "continuation call after both sessions were re-seeded"]
CASE_TIMEOUT = 180
FAULT_KINDS = ["cons", "with_raise", "pre", "post", "unsat", "unsat_debug", "unsat_free", "dyn_raise", "unsat_ext", "build_error_ext"]


def plan(tier):
    return {"ncases": 1600, "budget_s": 85} if tier == "quick" else {"ncases": 24000, "budget_s": 1200}


def _mk_prog(rng):
    c = rng.random()
    if c < 0.3:
        prog, g = gen.list_program(rng)
        prog = {k: v for k, v in prog.items() if not k.startswith("_")}
        return prog, g, "list"
    if c < 0.5:
        prog, g = gen.dist_program(rng, pure=False)
        return prog, g, "dist"
    if c < 0.8:
        prog, g = gen.tree_program(rng, max_bits=9, with_collections=False, deep=rng.random() < 0.4)
        return prog, g, "tree"
    prog = gen.order_pair(rng)[0]
    return prog, gen.G(rng, 9), "order"


def gen_case(rng, tier, idx):
    for _ in range(30):
        prog, g, kind = _mk_prog(rng)
        try:
            call = gen.validate(prog)
        except Exception:
            continue
        top = prog["top"]
        scope = gen.scope_of(prog, top)
        rands = [(p, fd) for p, fd in scope if fd["k"] == "int" and fd["r"] and not any(isinstance(x, int) for x in p)]
        if not rands:
            continue
        fk = FAULT_KINDS[idx % len(FAULT_KINDS)]
        fault = {"kind": fk}
        p, fd = rng.choice(rands)
        contra = [["e", ["b", "<", ["f", list(p)], ["f", list(p)]]]]
        if fk == "cons":
            blocks = [(cn, b) for cn, cd in prog["classes"].items() for b in cd["blocks"] if b["st"]]
            tb = [(cn, b) for cn, b in blocks if cn == top] or blocks
            if not tb:
                continue
            cn, b = rng.choice(tb)
            fault.update(cls=cn, blk=b["n"], at=rng.randrange(len(b["st"])))
        elif fk in ("with_raise", "dyn_raise"):
            depth = rng.choice(["plain", "if", "imp", "fe"])
            pre = [s for s in [g.stmt(scope, depth=1, sdepth=0, allow=("e",))] if s] if rng.random() < 0.6 else []
            lists = [fdl for fdl in R.all_fields(prog, top) if fdl["k"] == "list" and (fdl.get("sz") or fdl.get("init"))]
            if depth == "fe" and not lists:
                depth = "if"
            cond = ["b", ">=", ["f", list(p)], ["c", 0]] if fd["s"] else ["b", ">=", ["f", list(p)], ["u", 0, fd["w"]]]
            if depth == "plain":
                inl = pre + [["raise"]]
            elif depth == "if":
                inl = pre + [["if", [[cond, pre[:1] + [["raise"]]]], None]]
            elif depth == "imp":
                inl = pre + [["imp", cond, [["raise"]]]]
            else:
                inl = pre + [["fe", [lists[0]["n"]], "it", [["raise"]]]]
            fault.update(inline=inl, depth=depth)
        elif fk in ("pre", "post"):
            objs, leaves = [], []
            R.walk_leaves(prog, R.new_state(prog, top), True, [], 0, leaves, objs)
            used = [list(pth) for pth, st_, u in objs if u]
            fault.update(obj=rng.choice(used))
        elif fk in ("unsat", "unsat_debug"):
            fault.update(inline=contra if rng.random() < 0.7 else None, debug=(fk == "unsat_debug"),
                         set_unsat=None)
            if fault["inline"] is None:
                fault["inline"] = contra
        elif fk == "unsat_free":
            fault.update(fields=[list(p)], inline=contra)
        elif fk in ("unsat_ext", "build_error_ext"):
            # unsatisfiable randomize_with whose inline constraints also name a field of ANOTHER object
            # (build_error_ext: instead of being unsatisfiable the call names a part-select beyond the field, which the
            # solver library rejects while the formula is built - an exception out of the middle of the lowering)
            tops = [(q, qd) for q, qd in rands if len(q) == 1]
            if not tops:
                continue
            q, qd = rng.choice(tops)
            fault.update(field=q[0], debug=rng.random() < 0.7, inline=contra, width=qd["w"], signed=qd["s"])
        pre_ops = []
        for _k in range(rng.randint(0, 2)):
            pre_ops.append({"op": "randomize", "o": "o0"})
        if kind == "list" and rng.random() < 0.7:
            # the user edits the exposed list between the calls (the fault hits an object whose list changed since
            # the last successful call)
            L = [fd for fd in prog["classes"]["T"]["fields"] if fd["n"] == "l"][0]
            for _k in range(rng.randint(1, 2)):
                pre_ops.append(rng.choice([
                    {"op": "l_append", "o": "o0", "path": ["l"], "v": g.rand_val(L["w"], L["s"])},
                    {"op": "l_extend", "o": "o0", "path": ["l"], "v": [g.rand_val(L["w"], L["s"]) for _ in range(2)]},
                    {"op": "l_assign", "o": "o0", "path": ["l"], "v": [g.rand_val(L["w"], L["s"]) for _ in range(rng.randint(1, 3))]}]))
        cont = []
        for _k in range(rng.randint(4, 7)):
            c = rng.random()
            if c < 0.55:
                cont.append({"op": "randomize", "o": "o0"})
            elif c < 0.75:
                st = [s for s in [g.stmt(scope, depth=1, sdepth=0, allow=("e",))] if s]
                cont.append({"op": "with", "o": "o0", "inline": st} if st else {"op": "randomize", "o": "o0"})
            elif c < 0.9:
                cont.append({"op": "new+randomize", "name": "n%d" % len(cont)})
            else:
                cont.append({"op": "newclass+randomize"})
        cont.append({"op": "newclass+randomize"})
        cont.append({"op": "randomize", "o": "o0"})
        prog2 = gen.order_pair(rng)[0]
        return {"prog": prog, "prog2": prog2, "kind": kind, "fault": fault, "pre_ops": pre_ops, "cont": cont,
                "reseed": rng.randint(1, 1 << 20), "seed": rng.randint(1, 1 << 20)}
    return None


def fingerprint(model, _seen=None):
    """structural fingerprint of a field model's constraint tree: statement kinds per block, override nodes,
    lengths of lists whose size is not random"""
    if _seen is None:
        _seen = set()
    out = []
    overrides = [0]

    def walk_c(c, depth=0):
        name = type(c).__name__
        if name == "ConstraintOverrideModel":
            overrides[0] += 1
        out.append((depth, name))
        for sub in getattr(c, "constraint_l", []) or []:
            walk_c(sub, depth + 1)
        for attr in ("true_c", "false_c"):
            s = getattr(c, attr, None)
            if s is not None:
                walk_c(s, depth + 1)

    def walk_f(m):
        if id(m) in _seen:
            return
        _seen.add(id(m))
        for c in getattr(m, "constraint_model_l", []) or []:
            walk_c(c)
        for c in getattr(m, "constraint_dynamic_model_l", []) or []:
            walk_c(c)
        if type(m).__name__ == "FieldArrayModel" and not m.is_rand_sz:
            out.append(("len", m.name, len(m.field_l)))
        for f in getattr(m, "field_l", []) or []:
            walk_f(f)
    walk_f(model)
    return out, overrides[0]


def run_scenario(spec, with_fault):
    """-> dict(trace=[...], fault_raised=bool, m4=[(kind,msg)], note)"""
    from vsc.model.rand_state import RandState
    sess = Session(spec["prog"], callbacks=True, seed=spec["seed"])
    o = sess.new("o0")
    m4 = []
    fault = spec["fault"]
    ox = None
    if fault["kind"] in ("unsat_ext", "build_error_ext"):
        with quiet():
            ox = sess.bt.new(spec["prog"]["top"])
        ox.set_randstate(RandState.mkFromSeed(spec["seed"] + 17))
    for op in spec["pre_ops"]:
        sess.apply(op)
    fp_before = fingerprint(o.get_model())
    lens_before = _list_lens(sess, "o0")
    raised = None
    if not with_fault and fault["kind"] in ("with_raise", "dyn_raise", "post"):
        # the aborted call of the faulted session DID solve (the user exception strikes in the with-block, whose
        # __exit__ still randomizes, or in post_randomize after the solve): the twin makes the same call without the
        # exception, so that both sessions differ only in the exception itself
        try:
            with quiet():
                if fault["kind"] == "post":
                    o.randomize()
                else:
                    with o.randomize_with() as it:
                        B.Emitter(sess.bt, it).stmts(_strip_raise(fault["inline"]))
        except BaseException as e:   # noqa
            if type(e).__name__ == "CaseTimeout" or isinstance(e, (KeyboardInterrupt, SystemExit)):
                raise
            reset_lib_state()
        model_handles(o.get_model(), scrub=True)
    if with_fault:
        fk = fault["kind"]
        try:
            if fk == "cons":
                sess.bt.fault = ("cons", (fault["cls"], fault["blk"]), fault["at"])
                try:
                    with quiet():
                        sess.bt.new(fault["cls"])
                finally:
                    sess.bt.fault = None
            elif fk in ("with_raise", "dyn_raise"):
                with quiet():
                    with o.randomize_with() as it:
                        B.Emitter(sess.bt, it).stmts(fault["inline"])
            elif fk in ("pre", "post"):
                tgt = sess.live_at("o0", fault["obj"])
                sess.bt.fault = (fk, id(tgt))
                try:
                    with quiet():
                        o.randomize()
                finally:
                    sess.bt.fault = None
            elif fk in ("unsat", "unsat_debug"):
                with quiet():
                    with o.randomize_with(solve_fail_debug=1 if fault.get("debug") else 0) as it:
                        B.Emitter(sess.bt, it).stmts(fault["inline"])
            elif fk == "unsat_ext":
                with quiet():
                    with o.randomize_with(solve_fail_debug=1 if fault.get("debug") else 0) as it:
                        getattr(it, fault["field"]) != getattr(ox, fault["field"])
                        B.Emitter(sess.bt, it).stmts(fault["inline"])
            elif fk == "build_error_ext":
                with quiet():
                    with o.randomize_with() as it:
                        getattr(it, fault["field"]) != getattr(ox, fault["field"])
                        getattr(it, fault["field"])[fault["width"] + 2:1] == 0
            elif fk == "unsat_free":
                fos = [sess.raw_field("o0", fp_) for fp_ in fault["fields"]]
                with quiet():
                    with sess.vsc.randomize_with(*fos, randstate=RandState.mkFromSeed(5)):
                        B.Emitter(sess.bt, o).stmts(fault["inline"])
        except BaseException as e:   # noqa
            if type(e).__name__ == "CaseTimeout" or isinstance(e, (KeyboardInterrupt, SystemExit)):
                raise
            raised = type(e).__name__
            e = None
        # ---- M4: idle-state / leak monitor, right after the faulted call
        ni = non_idle()
        if ni:
            m4.append(("stacks-not-idle", "after the %s fault (%s) the shared construction state is not idle: %s" % (fk, raised, ni)))
            reset_lib_state()      # keep judging the rest of the property on this case
        left = model_handles(o.get_model(), scrub=True)
        if ox is not None:
            left = left + ["other object: " + x for x in model_handles(ox.get_model(), scrub=False)]
        if left:
            m4.append(("leftover-solver-handle", "after the %s fault (%s) the object's model still holds solver handles: %s" % (fk, raised, left[:6])))
        lens_after = _list_lens(sess, "o0")
        # a fault that strikes before the solve completed (construction of another object, pre_randomize, an
        # unsatisfiable system) must leave every list as long as the user had it; after with-block / post_randomize
        # faults the solve itself succeeded and may legitimately have re-sized a random-size list
        if lens_after != lens_before and fk in ("cons", "pre", "unsat", "unsat_debug", "unsat_free", "unsat_ext", "build_error_ext"):
            m4.append(("failed-call-changed-list-length", "the %s fault (%s) changed the exposed length of lists: before %s, after %s" % (
                fk, raised, lens_before, lens_after)))
        fp_after = fingerprint(o.get_model())
        if fp_after[1]:
            m4.append(("override-not-rolled-back", "after the %s fault (%s) %d temporary ConstraintOverrideModel nodes remain in the "
                       "constraint tree" % (fk, raised, fp_after[1])))
        elif fp_after[0] != fp_before[0]:
            diff = [x for x in fp_after[0] if x not in fp_before[0]][:4] + [x for x in fp_before[0] if x not in fp_after[0]][:4]
            m4.append(("model-fingerprint-changed", "after the %s fault (%s) the constraint tree / list lengths differ from before the "
                       "call: %s" % (fk, raised, diff)))
    # ---- both sessions: re-seed, then the scripted continuation
    o.set_randstate(RandState.mkFromSeed(spec["reseed"]))
    trace = []
    if ox is not None:
        # later use of the other object whose field the failed call named
        from ..session import snapshot_obj
        ox.set_randstate(RandState.mkFromSeed(spec["reseed"] + 3))
        for step in range(2):
            try:
                with quiet():
                    if step == 0:
                        with ox.randomize_with() as it:
                            getattr(it, fault["field"]) >= (vsc_signed(sess, 0, fault) if fault.get("signed") else 0)
                    else:
                        ox.randomize()
                oc = "ok"
            except BaseException as e:   # noqa
                if type(e).__name__ == "CaseTimeout" or isinstance(e, (KeyboardInterrupt, SystemExit)):
                    raise
                oc = type(e).__name__
                reset_lib_state()
            trace.append(("other-object", oc, None, _vals(snapshot_obj(ox, spec["prog"], spec["prog"]["top"], sess.vsc)) if oc == "ok" else None))
    nnew = 0
    bt2 = None
    for op in spec["cont"]:
        k = op["op"]
        try:
            if k in ("randomize", "with"):
                ev = sess.apply(op)
                # values of random fields after a FAILED call are unspecified: compare them on successful calls only
                trace.append((k, ev["outcome"], ev.get("exc_type"), _vals(ev.get("post")) if ev["outcome"] == "ok" else None))
                for rec in ev.get("records") or []:
                    rec.release()
                ev["records"] = []
            elif k == "new+randomize":
                nnew += 1
                with quiet():
                    n = sess.bt.new(spec["prog"]["top"])
                n.set_randstate(RandState.mkFromSeed(spec["reseed"] + nnew))
                try:
                    with quiet():
                        n.randomize()
                    oc = "ok"
                except Exception as e:
                    oc = type(e).__name__
                from ..session import snapshot_obj
                trace.append((k, oc, None, _vals(snapshot_obj(n, spec["prog"], spec["prog"]["top"], sess.vsc)) if oc == "ok" else None))
            else:
                # definition of a NEW class (uses solve_order: checks the scope depth) + randomization
                nnew += 1
                with quiet():
                    bt2 = B.build(sess.vsc, spec["prog2"])
                    n = bt2.new("C0")
                n.set_randstate(RandState.mkFromSeed(spec["reseed"] + 100 + nnew))
                try:
                    with quiet():
                        n.randomize()
                    oc = "ok"
                except Exception as e:
                    oc = type(e).__name__
                from ..session import snapshot_obj
                trace.append((k, oc, None, _vals(snapshot_obj(n, spec["prog2"], "C0", sess.vsc)) if oc == "ok" else None))
        except BaseException as e:   # noqa
            if type(e).__name__ == "CaseTimeout" or isinstance(e, (KeyboardInterrupt, SystemExit)):
                raise
            trace.append((k, "raised:" + type(e).__name__, str(e)[:120], None))
            reset_lib_state()
    return {"trace": trace, "raised": raised, "m4": m4}


def vsc_signed(sess, v, fault):
    return sess.vsc.signed(v, fault.get("width", 8))


def _strip_raise(stmts):
    out = []
    for s in stmts:
        if s[0] == "raise":
            continue
        if s[0] == "if":
            out.append(["if", [[c, _strip_raise(b)] for c, b in s[1]], _strip_raise(s[2]) if s[2] is not None else None])
        elif s[0] == "imp":
            out.append(["imp", s[1], _strip_raise(s[2])])
        elif s[0] == "fe":
            out.append(["fe", s[1], s[2], _strip_raise(s[3])])
        else:
            out.append(s)
    return out


def _list_lens(sess, inst):
    """exposed length (len(), size, number of iterated elements) of every list of the object tree"""
    out = {}

    def walk(snap, prefix):
        for n, v in snap["f"].items():
            if isinstance(v, dict):
                walk(v, prefix + n + ".")
            elif isinstance(v, list):
                alt = snap["alt"].get(n)
                out[prefix + n] = (len(v), alt[0] if alt else None, alt[1] if alt else None)
                for i, x in enumerate(v):
                    if isinstance(x, dict):
                        walk(x, prefix + "%s[%d]." % (n, i))
    try:
        walk(sess.snapshot(inst), "")
    except Exception as e:
        out["<unreadable>"] = repr(e)
    return out


def _vals(snap):
    if snap is None:
        return None
    out = {}
    for n, v in snap["f"].items():
        if isinstance(v, dict):
            out[n] = _vals(v)
        elif isinstance(v, list) and v and isinstance(v[0], dict):
            out[n] = [_vals(x) for x in v]
        else:
            out[n] = v
    return out


def exec_case(spec):
    cnt = common.Counters()
    viol = []
    try:
        pristine = run_scenario(spec, False)
        faulted = run_scenario(spec, True)
    except R.Corner as c:
        reset_lib_state()
        return {"status": common.INCONC, "kind": "corner", "msg": str(c)}
    fk = spec["fault"]["kind"]
    cnt.inc("faults_attempted")
    cnt.inc("fault_" + fk)
    src = SC.source_of({"prog": spec["prog"], "hist": spec["pre_ops"]}) + "\n# fault: %s\n# continuation: %s" % (
        spec["fault"], [o_["op"] for o_ in spec["cont"]])
    if faulted["raised"] is None:
        # the fault did not make the call raise (e.g. the planted contradiction was not reached): nothing to judge
        cnt.inc("fault_did_not_raise")
        return {"status": common.NOOBS, "kind": "fault-did-not-raise", "counters": dict(cnt), "nontrivial": False, "source": src}
    cnt.inc("faults_raised")
    cnt.inc("raised_" + str(faulted["raised"]))
    for k, m in faulted["m4"]:
        viol.append((k, m, {"fault": spec["fault"], "raised": faulted["raised"], "prog_kind": spec["kind"]}))
    cnt.inc("m4_checks")
    ok_cont = sum(1 for t in pristine["trace"] if t[1] == "ok")
    has_rsz = any(fd["k"] == "list" and fd.get("rsz") for cd in spec["prog"]["classes"].values() for fd in cd["fields"])
    if fk == "post" and has_rsz:
        # an exception in post_randomize aborts the call between the solve and the trimming of a random-size list:
        # neither "the call never happened" nor "the call completed" describes the object afterwards, and the number
        # of draws of a later call legitimately depends on how many elements the list holds; only M4 is judged here
        cnt.inc("twin_not_applicable")
    elif pristine["trace"] != faulted["trace"]:
        first = next((i for i, (a, b) in enumerate(zip(pristine["trace"], faulted["trace"])) if a != b), None)
        viol.append(("continuation-diverges", "after the %s fault (%s) continuation step %s differs from the pristine twin: pristine %s, "
                     "faulted %s" % (fk, faulted["raised"], first,
                                     pristine["trace"][first] if first is not None else None,
                                     faulted["trace"][first] if first is not None else None),
                     {"fault": spec["fault"], "raised": faulted["raised"], "prog_kind": spec["kind"], "step": first,
                      "step_op": spec["cont"][first]["op"] if first is not None else None}))
    else:
        cnt.inc("twin_traces_equal")
    cnt.inc("continuation_steps", len(pristine["trace"]))
    res = {"counters": dict(cnt), "nontrivial": ok_cont >= 3, "source": src}
    if viol:
        res.update(status=common.VIOL, kind=viol[0][0], msg=" || ".join(v[1] for v in viol[:3]))
        res["finding"] = classify("C16", spec, viol, None)
    else:
        res["status"] = common.HELD
    return res


def min_observation(tot, status_n, tier):
    if tot.get("faults_raised", 0) < 100:
        return False, "fewer than 100 faults actually raised"
    for fk in FAULT_KINDS:
        if fk == "dyn_raise":
            continue
        if not tot.get("fault_" + fk):
            return False, "fault kind %s never exercised" % fk
    return True, ""


def extra_coverage(tot, results, tier):
    return {"fault_kinds": {k: v for k, v in tot.items() if k.startswith("fault_") or k.startswith("raised_")}}
