"""C06 - inline and dynamic constraints bind to exactly one call and the right object.

Monitors: per-call reference solution set = class blocks AND this call's inline
statements AND the dynamic blocks referenced (evaluated on the object through
which they were referenced); M1 value check; M2 pointwise equivalence on EVERY
call of the history - leakage of an earlier inline set or dynamic reference is
over-restriction, which values alone would never show but the formula does."""
from .. import common, gen, judge as J, ref as R

LEVEL = "exploration"
RULE = ("case = class with regular and 1-3 dynamic constraint blocks (optionally a holder with a list of such objects) + "
        "history of 10-24 operations over a population of 1-5 live instances created before and after the one under test: "
        "randomize() alternating with randomize_with() whose inline sets contain random statements and dynamic references "
        "d(), d1()|d2(), d()&e, ~d(), it.items[i].d(); non-trivial = a call with an inline set or dynamic reference whose "
        "solution set is neither empty nor the whole domain")
ASSUMPTIONS = ["reference semantics ref.py; a dynamic reference is the conjunction of the referenced block's statements on that object",
               "exhaustive enumeration up to 11/14 random bits per call"]
CASE_TIMEOUT = 120
DECIDE = J.VALUE_KINDS | J.OUTCOME_KINDS


def plan(tier):
    return {"ncases": 480, "budget_s": 80} if tier == "quick" else {"ncases": 6000, "budget_s": 900}


def gen_case(rng, tier, idx):
    for _ in range(20):
        prog, g = gen.dyn_program(rng, max_bits=9)
        hist = gen.dyn_history(g, prog, nops=rng.randint(10, 16 if tier == "quick" else 24))
        prog = {k: v for k, v in prog.items() if not k.startswith("_")}
        try:
            gen.validate(prog)
        except Exception:
            continue
        return {"prog": prog, "hist": hist, "seed": rng.randint(1, 1 << 30), "max_points": 1 << (11 if tier == "quick" else 14)}
    return None


def exec_case(spec):
    res = J.judge(spec, DECIDE)
    if res.get("status") == common.INCONC:
        return res
    return J.finish(res, "C06", spec)


def min_observation(tot, status_n, tier):
    if tot.get("calls_ok", 0) < 50:
        return False, "fewer than 50 successful calls"
    if tot.get("hook_batches", 0) == 0:
        return False, "hook monitor observed nothing"
    return True, ""
