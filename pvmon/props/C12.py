"""C12 - instance and type coverage aggregate consistently and stay within 0..100.

Monitor M6 over populations: 1-3 covergroup classes with parameterised
constructors (1-3 shapes each), 1-6 instances created at arbitrary points of
an interleaved sample history.  After EVERY event: every instance's hit lists
against its own reference tally (no foreign samples), every type's hit lists
against the bin-wise sum over its instances, the partition of instances into
types against the partition by set of bins, and every coverage getter against
the reference arithmetic (tolerance 1e-3) plus the clauses range / monotone /
100-iff-all-covered on the library's own numbers."""
import traceback

from .. import common
from .. import covbuild as cb
from ..libstate import import_vsc, reset_lib_state, raised_in_library, quiet

LEVEL = "exploration"
RULE = ("case = population (1-3 generated covergroup classes x 1-3 constructor variants yielding different sets of "
        "bins, 1-6 instances born at random points) + interleaved sample history of 20-150 samples; option mode per "
        "case: plain / at_least>1 / non-uniform weights / both; distinct by hash of (classes, history); non-trivial "
        "when some type has >= 2 instances that were both sampled, or a class has >= 2 live shapes, and coverage moved")
ASSUMPTIONS = [
    "two shapes are 'different sets of bins' when some coverpoint's regular/ignore/illegal value sets, bin names or "
    "the list of crosses differ; variants that describe the same value sets in another notation are not generated",
    "at_least and weight are class constants (not constructor parameters); weights are set on coverpoints/crosses only "
    "(a covergroup-level weight is only generated when no item sets one)",
    "every generated coverpoint has at least one bin (coverage of a bin-less coverpoint is undefined in the statement)",
    "coverpoint.get_coverage() may report either the instance's or the type's share (the statement does not say); "
    "coverpoint.get_inst_coverage() must be the instance's",
]
CASE_TIMEOUT = 120
TOL = 1e-3

F_AL = "cov-at-least-ignored"
F_W = "cov-weight-ignored"
F_BOTH = "cov-at-least-and-weight-ignored"
F_COLL = "registry-collection-length-unchecked"
PRIORITY = [F_COLL, "duplicate-bin-names", "report-cross-weight-dropped", F_BOTH, F_W, F_AL]


def plan(tier):
    return {"ncases": 2400 if tier == "quick" else 40000, "budget_s": 50 if tier == "quick" else 700}


def case_mode(idx):
    return ("plain", "al", "w", "plain", "al", "w", "plain", "both", "plain", "al")[idx % 10]


def gen_case(rng, tier, idx):
    mode = case_mode(idx)
    cgs = cb.gen_population(rng, idx, "c12_", mode)
    hist = cb.gen_history(rng, cgs)
    return {"mode": mode, "cgs": cgs, "history": hist}


# ------------------------------------------------------------- the monitor
class CovMonitor(object):
    """coverage arithmetic + aggregation oracle shared by C12 and C13"""

    def __init__(self, lw, C):
        self.lw = lw
        self.C = C
        self.mech = set()          # classified mechanisms seen
        self.mech_msgs = []
        self.last = {}             # monotonicity memory
        self.moved = False
        self.stop_finding = None   # finding key of the violation that ended the case

    # -- structure / tallies -------------------------------------------------
    def check_tallies(self):
        lw = self.lw
        pd = lw.partition_diff()
        self.C.inc("partition_checks")
        if pd:
            kind, msg = pd[0][0], pd[0][1]
            if kind == "types-merged":
                i, j = pd[0][2]
                if cb.collection_len_unchecked(lw.ref.insts[i][2].shape, lw.ref.insts[j][2].shape):
                    self.stop_finding = F_COLL
            return kind, msg
        for i in range(len(lw.insts)):
            d = lw.diff_inst(i)
            self.C.inc("inst_tally_compares")
            if d:
                return "inst-tally", "instance i%d does not hold exactly its own samples: %s" % (i, d[:3])
        for key in lw.ref.type_keys:
            try:
                d = lw.diff_type(key)
            except AttributeError as e:
                return "no-type", "type covergroup unreachable: %r" % (e,)
            self.C.inc("type_tally_compares")
            if d:
                return "type-tally", "type of instances %s is not the bin-wise sum of its instances: %s" % (
                    lw.ref.insts_of(key), d[:3])
        return None

    # -- coverage --------------------------------------------------------------
    def _cmp(self, what, lib, tally, level, item=None):
        """level: 'cg' | 'cp' | 'cr'.  Returns None or (kind, msg) for an unexplained mismatch."""
        C = self.C
        C.inc("coverage_compares")
        sh = tally.shape
        if level == "cg":
            ref = tally.coverage()
        else:
            cps, crs = tally.item_coverages()
            ref = (cps if level == "cp" else crs)[item]
        if ref is None:
            return None
        if not isinstance(lib, (int, float)):
            return "coverage-type", "%s returned %r" % (what, lib)
        # clauses on the library's own number
        if lib < -TOL or lib > 100 + TOL:
            return "coverage-range", "%s = %r outside 0..100" % (what, lib)
        prev = self.last.get(what)
        if prev is not None and lib < prev - TOL:
            return "coverage-decreased", "%s went from %r to %r" % (what, prev, lib)
        if prev is not None and lib > prev + TOL:
            self.moved = True
        self.last[what] = lib
        if abs(lib - ref) <= TOL:
            if lib >= 100 - TOL:
                C.inc("reached_100")
            return None
        items = sh.cps + sh.crosses
        if level == "cg":
            has_al = any(it.at_least > 1 for it in items)
            has_w = len(set(it.weight for it in items)) > 1
            a_al = tally.coverage(honour_at_least=False, honour_weight=True)
            a_w = tally.coverage(honour_at_least=True, honour_weight=False)
            a_b = tally.coverage(honour_at_least=False, honour_weight=False)
            if has_al and abs(lib - a_al) <= TOL:
                m = F_AL
            elif has_w and abs(lib - a_w) <= TOL:
                m = F_W
            elif has_al and has_w and abs(lib - a_b) <= TOL:
                m = F_BOTH
            else:
                m = None
        else:
            it = (sh.cps if level == "cp" else sh.crosses)[item]
            cps, crs = tally.item_coverages(honour_at_least=False)
            alt = (cps if level == "cp" else crs)[item]
            m = F_AL if (it.at_least > 1 and abs(lib - alt) <= TOL) else None
        if m is None:
            return "coverage-value", "%s = %r, reference %.4f (at_least/weights of the items: %s)" % (
                what, lib, ref, [(it.name, it.at_least, it.weight) for it in items])
        self.mech.add(m)
        C.inc("explained_" + m)
        if len(self.mech_msgs) < 3:
            self.mech_msgs.append("%s = %r, reference %.4f [%s]" % (what, lib, ref, m))
        return None

    def check_coverage(self):
        lw = self.lw
        for i, li in enumerate(lw.insts):
            t_inst = lw.ref.insts[i][2]
            t_type = lw.ref.type_tally(lw.ref.type_key(i))
            with quiet():
                c_type = li.cg.get_coverage()
                c_inst = li.cg.get_inst_coverage()
                cp_inst = [o.get_inst_coverage() for o in li.cp_objs]
                cp_any = [o.get_coverage() for o in li.cp_objs]
                cr_cov = [o.get_coverage() for o in li.cr_objs]
            r = self._cmp("i%d.get_inst_coverage()" % i, c_inst, t_inst, "cg") or \
                self._cmp("i%d.get_coverage()" % i, c_type, t_type, "cg")
            if r:
                return r
            # 100 exactly when every bin is covered (both directions, on the library's numbers)
            for what, lib, t in (("i%d.get_inst_coverage()" % i, c_inst, t_inst), ("i%d.get_coverage()" % i, c_type, t_type)):
                full = t.all_covered()
                if (lib >= 100 - TOL) != full:
                    self.C.inc("hundred_clause_mismatch")
                    if not self.mech:
                        return "hundred-iff-covered", "%s = %r but every-bin-covered is %s" % (what, lib, full)
                if full:
                    self.C.inc("fully_covered_observations")
            for k, v in enumerate(cp_inst):
                r = self._cmp("i%d.%s.get_inst_coverage()" % (i, t_inst.shape.cps[k].name), v, t_inst, "cp", k)
                if r:
                    return r
            for k, v in enumerate(cr_cov):
                r = self._cmp("i%d.%s.get_coverage()" % (i, t_inst.shape.crosses[k].name), v, t_inst, "cr", k)
                if r:
                    return r
            # coverpoint.get_coverage(): instance or type share accepted
            ci, _ = t_inst.item_coverages()
            ct, _ = t_type.item_coverages()
            ci1, _ = t_inst.item_coverages(honour_at_least=False)
            ct1, _ = t_type.item_coverages(honour_at_least=False)
            for k, v in enumerate(cp_any):
                plain = t_inst.shape.cps[k].at_least == 1
                if abs(v - ci[k]) <= TOL:
                    self.C.inc("cp_get_coverage_equals_instance_share", 1 if plain and abs(ci[k] - ct[k]) > TOL else 0)
                elif abs(v - ct[k]) <= TOL:
                    self.C.inc("cp_get_coverage_equals_type_share", 1 if plain else 0)
                elif t_inst.shape.cps[k].at_least > 1 and (abs(v - ci1[k]) <= TOL or abs(v - ct1[k]) <= TOL):
                    self.mech.add(F_AL)
                else:
                    return "coverage-value", "i%d.%s.get_coverage() = %r is neither the instance share %.4f nor the type share %.4f" % (
                        i, t_inst.shape.cps[k].name, v, ci[k], ct[k])
        return None

    def finding(self, prop="C12", extra=()):
        mech = set(self.mech) | set(extra)
        if F_AL in mech and F_W in mech:
            mech.add(F_BOTH)
        if F_BOTH in mech:
            # the combined key subsumes the two single ones
            mech.discard(F_AL)
            mech.discard(F_W)
        return cb.pick_finding(prop, mech, PRIORITY)


def run_history(spec, res, C, on_event=None):
    """drives the history; returns (LiveWorld, CovMonitor) or None after filling res with a verdict"""
    lw = cb.LiveWorld(spec["cgs"])
    mon = CovMonitor(lw, C)

    def viol(kind, msg, ev_i):
        res.update(status=common.VIOL, kind=kind, msg="event #%d %s: %s" % (ev_i, spec["history"][ev_i][:3], msg))
        return None

    for ev_i, ev in enumerate(spec["history"]):
        try:
            if ev[0] == "new":
                lw.new(ev[2], ev[3], *(ev[4:6] if len(ev) > 4 and ev[4] else ()))
                C.inc("instances")
            elif ev[0] == "sample":
                lw.sample(ev[1], ev[2])
                C.inc("samples")
            elif on_event is not None:
                r = on_event(lw, mon, ev, ev_i)
                if r:
                    return viol(r[0], r[1], ev_i)
                continue
        except Exception as e:
            reset_lib_state()
            if not raised_in_library(e):
                raise
            if ev[0] == "new":
                res.update(status=common.INCONC, kind="construct-exception:" + type(e).__name__,
                           msg=traceback.format_exc()[-400:])
                return None
            return viol("exception-%s:%s" % (ev[0], type(e).__name__), "%r\n%s" % (e, traceback.format_exc()[-400:]), ev_i)
        r = mon.check_tallies() or mon.check_coverage()
        if r:
            if mon.stop_finding:
                res["finding"] = mon.stop_finding
            return viol(r[0], r[1], ev_i)
    return lw, mon


def population_stats(lw, C):
    ref = lw.ref
    multi = 0
    for key in ref.type_keys:
        members = [i for i in ref.insts_of(key) if ref.insts[i][2].nsamples > 0]
        if len(members) >= 2:
            multi += 1
    C.inc("types", len(ref.type_keys))
    C.inc("types_with_2plus_sampled_instances", multi)
    shapes_per_class = {}
    for key in ref.type_keys:
        shapes_per_class[key[0]] = shapes_per_class.get(key[0], 0) + 1
    nshape = sum(1 for v in shapes_per_class.values() if v >= 2)
    C.inc("classes_with_2plus_live_shapes", nshape)
    return multi > 0 or nshape > 0


def source_of(spec):
    return "\n".join(cb.to_source(cg) for cg in spec["cgs"]) + "\n" + cb.history_source(spec["history"], spec["cgs"])


def exec_case(spec):
    import_vsc()
    cb.reset_registry()
    C = common.Counters()
    res = {"counters": C, "nontrivial": False, "source": source_of(spec)}
    C.inc("mode_" + spec["mode"])
    out = run_history(spec, res, C)
    if out is None:
        return res
    lw, mon = out
    res["nontrivial"] = population_stats(lw, C) and mon.moved
    f = mon.finding()
    if f:
        res.update(status=common.VIOL, kind="coverage-arithmetic", finding=f,
                   msg="; ".join(mon.mech_msgs) + " (every other clause held on this case)")
    else:
        res["status"] = common.HELD
    return res


def min_observation(tot, status_n, tier):
    need = {"samples": 20000, "type_tally_compares": 20000, "coverage_compares": 100000,
            "types_with_2plus_sampled_instances": 200, "classes_with_2plus_live_shapes": 100,
            "fully_covered_observations": 200, "mode_al": 50, "mode_w": 50}
    for k, v in need.items():
        if tot.get(k, 0) < v:
            return False, "monitor counter %s = %d < %d" % (k, tot.get(k, 0), v)
    return True, ""


def extra_coverage(tot, results, tier):
    return {"comparisons": int(tot.get("coverage_compares", 0) + tot.get("inst_tally_compares", 0) + tot.get("type_tally_compares", 0)),
            "cp_get_coverage_semantics": {"instance_share": tot.get("cp_get_coverage_equals_instance_share", 0),
                                          "type_share_only": tot.get("cp_get_coverage_equals_type_share", 0)}}
