"""C07 - enforced blocks = most-derived by name, enabled, of this very instance.

Monitors: reference model tracking, per live instance, the most-derived block
per name and the constraint_mode toggle history; M1 values inside the
reference solution set of exactly the active blocks; M2 pointwise equivalence
of the lowered formula (an over- or under-enforced block shows as a mismatch
even when no random draw happens to witness it)."""
from .. import common, gen, judge as J, ref as R

LEVEL = "exploration"
RULE = ("case = class hierarchy of depth 1-3 with 2-4 block names, each overridden or not, plus a holder class with a "
        "nested instance and a list of instances; history of 14-30 operations: constructing further instances (before and "
        "after toggles), obj.blk.constraint_mode(b) on top-level / nested / list-element instances, randomize and "
        "randomize_with on any instance; non-trivial = a call whose solution set is neither empty nor the whole domain")
ASSUMPTIONS = ["reference semantics ref.py; only the documented instance-level obj.blk.constraint_mode(b) is driven",
               "exhaustive enumeration up to 10/14 random bits per call"]
CASE_TIMEOUT = 120
DECIDE = J.VALUE_KINDS | {"spurious-solve-failure", "unsat-returned-normally"}


def plan(tier):
    return {"ncases": 480, "budget_s": 80} if tier == "quick" else {"ncases": 6000, "budget_s": 900}


def gen_case(rng, tier, idx):
    for _ in range(20):
        prog, g = gen.hierarchy_program(rng, max_bits=9)
        gen.plant(prog, g)
        hist = gen.hierarchy_history(g, prog, nops=rng.randint(14, 22 if tier == "quick" else 30))
        try:
            for cn in prog["classes"]:
                p2 = dict(prog, top=cn)
                gen.validate(p2)
        except Exception:
            continue
        prog = {k: v for k, v in prog.items() if not k.startswith("_")}
        return {"prog": prog, "hist": hist, "seed": rng.randint(1, 1 << 30), "max_points": 1 << (11 if tier == "quick" else 14)}
    return None


def exec_case(spec):
    res = J.judge(spec, DECIDE)
    if res.get("status") == common.INCONC:
        return res
    return J.finish(res, "C07", spec)


def min_observation(tot, status_n, tier):
    if tot.get("calls_ok", 0) < 50:
        return False, "fewer than 50 successful calls"
    if tot.get("hook_batches", 0) == 0:
        return False, "hook monitor observed nothing"
    return True, ""
