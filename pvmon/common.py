"""Shared infrastructure: tiers, seeds, worker fan-out, verdict aggregation,
evidence files, known findings.  Nothing in here imports vsc."""
import hashlib
import json
import os
import random
import subprocess
import sys
import time

VERIF = os.path.dirname(os.path.dirname(os.path.abspath(__file__)))
REPO = os.environ.get("PVMON_REPO", "/repo")
NCPU = max(1, min(16, os.cpu_count() or 1))

HELD, VIOL, INCONC, NOOBS = "held", "violation", "inconclusive", "noobs"


def get_tier(argv_tier=None):
    t = argv_tier or os.environ.get("VERIF_TIER") or "quick"
    return "thorough" if t.startswith("t") else "quick"


def get_seed(argv_seed=None):
    if argv_seed is not None:
        return int(argv_seed)
    try:
        return int(os.environ.get("VERIF_SEED", "0"))
    except ValueError:
        return 0


def case_rng(prop, tier, seed, idx):
    h = hashlib.sha256(("%s|%s|%d|%d" % (prop, tier, seed, idx)).encode()).digest()
    return random.Random(int.from_bytes(h[:8], "big"))


def canon_hash(obj):
    return hashlib.sha256(json.dumps(obj, sort_keys=True, default=str).encode()).hexdigest()[:16]


def load_findings():
    p = os.path.join(VERIF, "known_findings.json")
    with open(p) as f:
        d = json.load(f)
    return d


def open_findings(prop):
    d = load_findings()
    out = {}
    for f in d.get("findings", []):
        if f.get("status", "open") == "open" and prop in f["property"]:
            out[f["key"]] = f
    return out


class Counters(dict):
    def inc(self, k, n=1):
        self[k] = self.get(k, 0) + n


def merge_counters(dst, src):
    for k, v in src.items():
        if isinstance(v, (int, float)):
            dst[k] = dst.get(k, 0) + v
        elif isinstance(v, list):
            cur = dst.setdefault(k, [])
            for x in v:
                if x not in cur and len(cur) < 64:
                    cur.append(x)
        elif isinstance(v, dict):
            merge_counters(dst.setdefault(k, {}), v)


def run_workers(prop, tier, seed, ncases, budget_s, nworkers=None, extra_env=None):
    """Fan the case indices 0..ncases-1 out over worker subprocesses (never
    multiprocessing.Pool: a dying child must not hang the run).  Returns the
    list of per-case result dicts plus bookkeeping."""
    nworkers = nworkers or NCPU
    nworkers = max(1, min(nworkers, ncases))
    tmpdir = os.path.join("/tmp", "pvmon-%d-%s" % (os.getpid(), prop))
    os.makedirs(tmpdir, exist_ok=True)
    env = dict(os.environ)
    if extra_env:
        env.update(extra_env)
    t0 = time.time()
    hard = budget_s * 2.0 + 60
    info = {"workers": nworkers, "worker_crashes": 0, "worker_killed": 0, "crash_logs": []}

    def launch(w, start):
        out = os.path.join(tmpdir, "w%d.jsonl" % w)
        log = open(os.path.join(tmpdir, "w%d.log" % w), "a")
        left = max(5.0, budget_s - (time.time() - t0))
        cmd = [sys.executable, "-X", "faulthandler", "-m", "pvmon.worker", prop, tier, str(seed), str(w),
               str(nworkers), str(ncases), out, str(left), str(start)]
        return [w, out, log, subprocess.Popen(cmd, stdout=log, stderr=subprocess.STDOUT, env=env, cwd=VERIF), 0]

    def last_idx(out):
        last = None
        if os.path.exists(out):
            with open(out) as f:
                for line in f:
                    try:
                        last = json.loads(line).get("idx", last)
                    except ValueError:
                        pass
        return last

    procs = [launch(w, w) for w in range(nworkers)]
    pending = list(procs)
    while pending:
        ent = pending.pop(0)
        w, out, log, p, restarts = ent
        left = max(1.0, hard - (time.time() - t0))
        try:
            rc = p.wait(timeout=left)
        except subprocess.TimeoutExpired:
            p.kill()
            p.wait()
            rc = -9
            info["worker_killed"] += 1
        log.close()
        if rc not in (0, -9):
            info["worker_crashes"] += 1
            try:
                with open(log.name) as f:
                    info["crash_logs"].append(f.read()[-1500:])
            except OSError:
                pass
            # the case that killed the worker is recorded as inconclusive; carry on after it
            li = last_idx(out)
            crashed = (li + nworkers) if li is not None else w
            with open(out, "a") as f:
                f.write(json.dumps({"idx": crashed, "status": INCONC, "kind": "worker-crash(rc=%s)" % rc}) + "\n")
            if restarts < 5 and crashed + nworkers < ncases and time.time() - t0 < budget_s:
                ne = launch(w, crashed + nworkers)
                ne[4] = restarts + 1
                procs.append(ne)
                pending.append(ne)
    results = []
    for out in sorted(set(e[1] for e in procs)):
        if os.path.exists(out):
            with open(out) as f:
                for line in f:
                    line = line.strip()
                    if line:
                        try:
                            results.append(json.loads(line))
                        except ValueError:
                            pass
    import shutil
    shutil.rmtree(tmpdir, ignore_errors=True)
    results.sort(key=lambda r: r.get("idx", 0))
    return results, info


def write_evidence(prop, tier, seed, level, coverage, assumptions, wall_s, violations):
    # evidence/ describes /repo itself; a run against a scratch copy with a deliberate change (tools/with_patch.sh,
    # tools/mutants.py set PVMON_REPO) must not overwrite it
    sub = "evidence" if os.environ.get("PVMON_REPO", "/repo").rstrip("/") == "/repo" else os.path.join("replays", "scratch-evidence")
    os.makedirs(os.path.join(VERIF, sub), exist_ok=True)
    ev = {
        "property_id": prop, "tier": tier, "seed": seed, "level": level,
        "coverage": coverage, "assumptions": assumptions,
        "wall_s": round(wall_s, 2), "violations": violations,
    }
    p = os.path.join(VERIF, sub, prop + ".json")
    tmp = p + ".tmp"
    with open(tmp, "w") as f:
        json.dump(ev, f, indent=1, sort_keys=True, default=str)
        f.write("\n")
    os.replace(tmp, p)
    return p


def write_replay(prop, tier, seed, res):
    d = os.path.join(VERIF, "replays", prop)
    os.makedirs(d, exist_ok=True)
    name = "%s-s%d-i%s-%s.json" % (tier, seed, res.get("idx"), (res.get("kind") or "v").replace("/", "_")[:40])
    p = os.path.join(d, name)
    with open(p, "w") as f:
        json.dump({"property": prop, "tier": tier, "seed": seed, "idx": res.get("idx"),
                   "kind": res.get("kind"), "msg": res.get("msg"), "spec": res.get("spec"),
                   "source": res.get("source"), "events": res.get("events")},
                  f, indent=1, default=str)
    return p
