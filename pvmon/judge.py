"""Shared judging of a solver-facing case: runs the history and applies every
standard oracle to every call; property modules select which violation kinds
decide their property (the others are counted as side observations only)."""
from . import common, oracle as O, ref as R, solvercase as SC
from .libstate import reset_lib_state
from .session import snap_get

VALUE_KINDS = {"value-violates-constraint", "value-outside-type", "formula-mismatch"}
OUTCOME_KINDS = {"unsat-returned-normally", "spurious-solve-failure", "other-exception", "formula-unsat-but-ref-sat"}
FRAME_KINDS = {"nonrandom-field-changed", "nonrandom-field-changed-on-failure"}
IDLE_KINDS = {"stacks-not-idle"}
LIST_KINDS = {"list-views-disagree", "list-edit-mismatch", "fixed-list-length-changed"}


def _lists_of(prog, st, prefix=()):
    """(path, decl) of every list field in the object tree"""
    out = []
    for fd in R.all_fields(prog, st["cls"]):
        if fd["k"] == "list":
            out.append((tuple(prefix) + (fd["n"],), fd))
        elif fd["k"] == "obj":
            out.extend(_lists_of(prog, st["f"][fd["n"]], tuple(prefix) + (fd["n"],)))
    return out


def _snap_alt(snap, path):
    o = snap
    for p in path[:-1]:
        o = o["f"][p] if isinstance(o, dict) and "f" in o else o[p]
    return o["alt"].get(path[-1]), o["f"].get(path[-1])


def all_leaves(prog, st):
    out, objs = [], []
    R.walk_leaves(prog, st, True, [], 0, out, objs)
    return out


def judge(spec, decide, callbacks=False, per_call=None, max_points=None, m2=True):
    """-> result dict (status/kind/msg/counters/nontrivial/source); `decide` is the
    set of violation kinds that decide the calling property."""
    cnt = common.Counters()
    viol = []     # (kind, msg) deciding
    side = []     # (kind, msg) other observations
    nontrivial = False
    max_points = max_points or spec.get("max_points", 1024)
    edit_bad = []

    def on_event(sess_, ev_):
        # C04: appending / extending / assigning / clearing acts on exactly the exposed list
        k = ev_["op"]["op"]
        if k in ("l_append", "l_clear", "l_assign", "l_extend"):
            inst_ = ev_["op"].get("o", "o0")
            try:
                snap = sess_.snapshot(inst_)
                got = snap_get(snap, ev_["op"]["path"])
                alt, _ = _snap_alt(snap, tuple(ev_["op"]["path"]))
                exp = R.get_at(sess_.state[inst_], ev_["op"]["path"])
                if exp and isinstance(exp[0], dict):
                    ok = len(got) == len(exp)
                else:
                    ok = list(got) == list(exp)
                if alt is not None and (alt[0] != len(exp) or alt[1] != len(exp)):
                    ok = False
                if not ok:
                    edit_bad.append((ev_, "after %s the list reads %r (len %s, size %s) but should be %r" % (
                        SC.src_op(ev_["op"]), got, alt[0] if alt else "?", alt[1] if alt else "?", exp)))
            except Exception as e:   # a read path that raises after an edit is also an observation
                edit_bad.append((ev_, "after %s reading the list raised %r" % (SC.src_op(ev_["op"]), e)))
    try:
        sess, evs = SC.run(spec, callbacks=callbacks, on_event=on_event)
    except R.Corner as c:
        reset_lib_state()
        return {"status": common.INCONC, "kind": "corner-at-build", "msg": str(c)}

    cur = [None]

    def add(kind, msg):
        (viol if kind in decide else side).append((kind, msg, cur[0]))
        cnt.inc("obs_" + kind)

    failed = set()
    for ev in evs:
        inst_ = ev["op"].get("o", "o0")
        if SC.is_call(ev) and ev.get("outcome") != "ok":
            failed.add(inst_)
        elif inst_ in failed:
            ev["_failed_before"] = True
        if SC.is_call(ev) and inst_ in failed and ev.get("outcome") == "ok":
            ev["_failed_before"] = True
    for ev_, msg_ in edit_bad:
        cur[0] = ev_
        add("list-edit-mismatch", msg_)
    for ev in evs:
        if not SC.is_call(ev):
            if ev["op"]["op"] in ("l_append", "l_clear", "l_assign", "l_extend"):
                cnt.inc("list_edits")
            continue
        cnt.inc("calls")
        cur[0] = ev
        inst = ev["op"].get("o", "o0")
        call = ev.get("call")
        head = SC.src_op(ev["op"]).split("\n")[0]
        if ev.get("non_idle"):
            add("stacks-not-idle", "%s left shared construction state non-idle: %s" % (head, ev["non_idle"]))
        if call is None:
            cnt.inc("corner_calls")
            continue
        sols = None
        try:
            if call.domain_size() <= max_points:
                sols = call.enumerate(limit=max_points)
            else:
                cnt.inc("too_large")
        except R.Corner:
            cnt.inc("corner_calls")
            continue
        if sols is not None:
            if 0 < len(sols) < call.domain_size() or len(sols) == 0:
                nontrivial = True
        oc = ev["outcome"]
        ev["sols"] = sols
        # --- frame condition: everything that is not random in this call keeps its value
        if ev.get("post") is not None:
            randset = set(p for p, _ in call.rand_leaves)
            for p, t, r in all_leaves(sess.prog, call.root):
                if p in randset:
                    continue
                try:
                    a, b = snap_get(ev["pre"], p), snap_get(ev["post"], p)
                except Exception:
                    continue
                if a != b:
                    add("nonrandom-field-changed" if oc == "ok" else "nonrandom-field-changed-on-failure",
                        "%s changed %s from %r to %r although it is not random in this call (outcome %s)" % (
                            head, ".".join(map(str, p)), a, b, oc))
        # --- list views (C04): len(), size, iteration and indexing agree; fixed-size lists keep their length
        if ev.get("post") is not None and call.target == ():
            for lp, fd in _lists_of(sess.prog, call.root):
                try:
                    alt, vals = _snap_alt(ev["post"], lp)
                    _, pre_vals = _snap_alt(ev["pre"], lp)
                except Exception:
                    continue
                if alt is None:
                    continue
                cnt.inc("list_views_checked")
                ln, sz, indexed = alt
                if not (ln == sz == len(vals)) or (indexed is not None and list(indexed) != list(vals)):
                    add("list-views-disagree", "%s: list %s: len()=%s size=%s iteration=%r indexing=%r" % (
                        head, ".".join(map(str, lp)), ln, sz, vals, indexed))
                if not fd.get("rsz") and pre_vals is not None and len(pre_vals) != len(vals):
                    add("fixed-list-length-changed", "%s: fixed-size list %s changed length %d -> %d" % (
                        head, ".".join(map(str, lp)), len(pre_vals), len(vals)))
        # --- values
        if oc == "ok":
            cnt.inc("calls_ok")
            try:
                for p, v, why in O.check_type(call, ev["post"], sess.prog):
                    add("value-outside-type", "%s: %s = %r %s" % (head, ".".join(map(str, p)), v, why))
                for org, s in O.check_values(call, ev["post"]):
                    add("value-violates-constraint", "after %s: %s violated in %s; values %s" % (
                        head, s, org, O.post_env(call, ev["post"])))
            except R.Corner:
                cnt.inc("corner_calls")
                continue
        else:
            cnt.inc("calls_raised")
        # --- outcome vs satisfiability
        if sols is not None:
            sat = len(sols) > 0
            cnt.inc("sat_calls_ref" if sat else "unsat_calls_ref")
            if oc == "ok":
                if not sat:
                    add("unsat-returned-normally", "%s returned %s although no assignment satisfies the constraints" % (
                        head, O.post_env(call, ev["post"])))
                else:
                    cnt.inc("agree_sat")
            elif oc == "SolveFailure":
                if sat:
                    add("spurious-solve-failure", "%s raised SolveFailure although %d of %d assignments satisfy the constraints, e.g. %s" % (
                        head, len(sols), call.domain_size(),
                        dict(zip([".".join(map(str, p)) for p, _ in call.rand_leaves], sols[0]))))
                else:
                    cnt.inc("agree_unsat")
            else:
                add("other-exception", "%s raised %s (%s) %s || %s" % (
                    head, ev.get("exc_type"), ev.get("exc_msg"), "[satisfiable]" if sat else "[unsatisfiable]",
                    (ev.get("exc_tb") or "")[-400:]))
        # --- wide programs (domain beyond the enumeration bound): planted-witness label and sampled M2
        if sols is None and spec.get("wide") and call is not None:
            recs_w = ev.get("records") or []
            wit = None
            try:
                w0 = spec.get("witness") or {}
                wenv = {tuple(k.split("/")) if isinstance(k, str) else tuple(k): v for k, v in w0.items()}
                wenv = {p: wenv[p] for p, _ in call.rand_leaves if p in wenv}
                if len(wenv) == len(call.rand_leaves) and call.holds(wenv):
                    wit = wenv
            except R.Corner:
                wit = None
            if wit is not None:
                cnt.inc("planted_sat_calls")
                if oc == "SolveFailure":
                    add("spurious-solve-failure", "%s raised SolveFailure although the planted witness %s satisfies every constraint" % (
                        head, {".".join(map(str, p)): v for p, v in wit.items()}))
                elif oc == "exc":
                    add("other-exception", "%s raised %s (%s) [satisfiable: planted witness] || %s" % (
                        head, ev.get("exc_type"), ev.get("exc_msg"), (ev.get("exc_tb") or "")[-400:]))
                elif oc == "ok":
                    cnt.inc("agree_sat")
            if m2 and recs_w:
                import random as _r
                seeds_env = [wit]
                if oc == "ok":
                    try:
                        seeds_env.append(O.post_env(call, ev["post"]))
                    except Exception:
                        pass
                pw = O.pointwise_sampled(sess, inst, ev, seeds_env, _r.Random(spec.get("seed", 1) + cnt.get("calls", 0)))
                cnt.inc("hook_batches", pw["batches"])
                cnt.inc("points_sampled", pw["points"])
                cnt.inc("sat_calls", pw["sat_calls"])
                if pw["status"] == "mismatch":
                    add("formula-mismatch", "at %s: sampled points differ, e.g. %s" % (head, pw["mismatches"][:3]))
                elif pw["status"] == "ok":
                    cnt.inc("formulas_sampled_equal")
        # --- M2
        recs = ev.get("records") or []
        if m2 and sols is not None and recs:
            pw = O.pointwise(sess, inst, ev, max_points=max_points, sols=sols)
            cnt.inc("hook_batches", pw["batches"])
            cnt.inc("points_compared", pw["points"])
            cnt.inc("sat_calls", pw["sat_calls"])
            if pw["status"] == "mismatch":
                add("formula-mismatch", "at %s: %d points differ, e.g. %s" % (head, pw["n_mismatch"], pw["mismatches"][:3]))
            elif pw["status"] != "ok":
                cnt.inc("m2_" + pw["status"].split(":")[0].split("(")[0])
            else:
                cnt.inc("formulas_equivalent")
        if per_call:
            per_call(sess, ev, add, cnt)
    res = {"counters": dict(cnt), "nontrivial": nontrivial, "source": SC.source_of(spec)}
    res["_evs"] = evs
    res["_sess"] = sess
    res["_viol"] = viol
    res["_side"] = side
    return res


def finish(res, prop, spec, observed_key="calls_ok"):
    """turns the working result of judge() into the final case result (and releases solver clones)"""
    from .findings import classify
    evs = res.pop("_evs", [])
    res.pop("_sess", None)
    viol = res.pop("_viol", [])
    side = res.pop("_side", [])
    if viol:
        res.update(status=common.VIOL, kind=viol[0][0], msg=" || ".join(v[1] for v in viol[:3]))
        res["finding"] = classify(prop, spec, viol, evs)
    elif "status" not in res:
        res["status"] = common.HELD if res["counters"].get(observed_key) else common.NOOBS
    SC.release(evs)
    return res
