"""Runs a history of API operations on live pyvsc objects in lockstep with the
reference state, recording one event per operation (M1): call event before
invoking, return event after, snapshots through the public read paths."""
import copy
import traceback

from . import build as B
from . import ref as R
from .hookmon import HookMonitor
from .libstate import import_vsc, non_idle, quiet, raised_in_library, reset_lib_state

_HOOK = None


def hook():
    global _HOOK
    if _HOOK is None:
        _HOOK = HookMonitor()
    return _HOOK


class Session(object):

    def __init__(self, prog, callbacks=False, seed=1):
        self.vsc = import_vsc()
        self.prog = prog
        hook().release_all()
        reset_lib_state()
        with quiet():
            self.bt = B.build(self.vsc, prog, callbacks=callbacks)
        self.live = {}
        self.state = {}
        self.seed = seed
        self.hook = hook()
        self.events = []

    # -- instances --------------------------------------------------------
    def new(self, name, cname=None, seed=None):
        cname = cname or self.prog["top"]
        with quiet():
            o = self.bt.new(cname)
        from vsc.model.rand_state import RandState
        o.set_randstate(RandState.mkFromSeed(self.seed if seed is None else seed, name))
        self.live[name] = o
        self.state[name] = R.new_state(self.prog, cname)
        return o

    # -- navigation --------------------------------------------------------
    def live_at(self, inst, path):
        o = self.live[inst]
        for p in path:
            o = getattr(o, p) if isinstance(p, str) else o[p]
        return o

    def raw_field(self, inst, path):
        """the field object itself (not its value)"""
        parent = self.live_at(inst, path[:-1])
        with self.vsc.raw_mode():
            last = path[-1]
            return getattr(parent, last) if isinstance(last, str) else parent[last]

    def model_at(self, inst, path):
        m = self.live[inst].get_model()
        for p in path:
            if isinstance(p, str):
                if p == "#sz":
                    m = m.size
                else:
                    m = m.find_field(p)
            else:
                m = m.field_l[p]
            if m is None:
                return None
        return m

    # -- snapshots ---------------------------------------------------------
    def snapshot(self, inst):
        return snapshot_obj(self.live[inst], self.prog, self.state[inst]["cls"], self.vsc)

    # -- operations --------------------------------------------------------
    def apply(self, op):
        """Executes one history operation; returns the event record."""
        k = op["op"]
        inst = op.get("o", "o0")
        ev = {"op": op}
        st = self.state.get(inst)
        vsc = self.vsc
        if k == "new":
            self.new(op["name"], op.get("cls"), op.get("seed"))
            return ev
        if k == "set":
            path = op["path"]
            fd = R.decl_at(self.prog, st, path)
            v = op["v"]
            parent = self.live_at(inst, path[:-1])
            last = path[-1]
            lv = self.bt.enums[fd["e"]][v] if (fd["k"] == "enum" or fd.get("ek") == "enum") else v
            if isinstance(last, str):
                setattr(parent, last, lv)
            else:
                parent[last] = lv
            if fd["k"] == "enum" or fd.get("ek") == "enum":
                R.set_at(st, path, v)
            else:
                R.set_at(st, path, R.wrap(v, fd["w"], fd["s"]))
            return ev
        if k == "rand_mode":
            fo = self.raw_field(inst, op["path"])
            with vsc.raw_mode():
                fo.rand_mode = op["v"]
            owner = R.get_at(st, op["path"][:-1]) if len(op["path"]) > 1 else st
            owner["rm"][op["path"][-1]] = bool(op["v"])
            return ev
        if k == "cmode":
            o = self.live_at(inst, op["path"])
            getattr(o, op["blk"]).constraint_mode(op["v"])
            owner = R.get_at(st, op["path"]) if op["path"] else st
            owner["cm"][op["blk"]] = bool(op["v"])
            return ev
        if k in ("rl_clear", "rl_append", "rl_extend"):
            o = self.live_at(inst, op["path"][:-1])
            rl = object.__getattribute__(o, op["path"][-1])
            cur = R.get_at(st, op["path"])
            if k == "rl_clear":
                rl.clear()
                del cur[:]
            elif k == "rl_append":
                it = op["v"]
                rl.append(tuple(it) if isinstance(it, list) else it)
                cur.append(it)
            else:
                rl.extend([tuple(it) if isinstance(it, list) else it for it in op["v"]])
                cur.extend(op["v"])
            return ev
        if k == "l_setobj":
            # l[i] = <new object> on a list of objects
            path = op["path"]
            fd = R.decl_at(self.prog, st, path)
            parent = self.live_at(inst, path[:-1])
            with vsc.raw_mode():
                l = getattr(parent, path[-1])
            cur = R.get_at(st, path)
            if op["i"] < len(cur):
                with quiet():
                    l[op["i"]] = self.bt.new(fd["c"])
                cur[op["i"]] = R.new_state(self.prog, fd["c"], bool(fd["r"]))
            return ev
        if k in ("l_append", "l_clear", "l_assign", "l_extend"):
            path = op["path"]
            fd = R.decl_at(self.prog, st, path)
            parent = self.live_at(inst, path[:-1])
            with vsc.raw_mode():
                l = getattr(parent, path[-1])
            cur = R.get_at(st, path)

            def conv(v):
                return self.bt.enums[fd["e"]][v] if fd["ek"] == "enum" else v

            def rv(v):
                return v if fd["ek"] == "enum" else R.wrap(v, fd["w"], fd["s"])
            if k == "l_clear":
                l.clear()
                del cur[:]
            elif k == "l_append":
                if fd["ek"] == "obj":
                    with quiet():
                        l.append(self.bt.new(fd["c"]))
                    cur.append(R.new_state(self.prog, fd["c"], bool(fd["r"])))
                else:
                    l.append(conv(op["v"]))
                    cur.append(rv(op["v"]))
            elif k == "l_extend":
                l.extend([conv(v) for v in op["v"]])
                cur.extend([rv(v) for v in op["v"]])
            else:
                setattr(parent, path[-1], [conv(v) for v in op["v"]])
                del cur[:]
                cur.extend([rv(v) for v in op["v"]])
            return ev
        if k == "seed":
            from vsc.model.rand_state import RandState
            self.live[inst].set_randstate(RandState.mkFromSeed(op["v"]))
            return ev
        if k in ("randomize", "with", "free"):
            return self._call(op, inst, ev)
        raise Exception("unknown op %r" % (k,))

    def _call(self, op, inst, ev):
        vsc = self.vsc
        st = self.state[inst]
        k = op["op"]
        target = tuple(op.get("target", ()))
        inline = op.get("inline")
        # values that pre_randomize callbacks will write into non-random fields (C17): the solver must see them
        self.bt.pre_actions = {}
        for objpath, fname, val in op.get("pre_writes", []):
            lo = self.live_at(inst, objpath)
            self.bt.pre_actions.setdefault(id(lo), []).append((fname, val))
        try:
            frozen = copy.deepcopy(st)   # the call is judged against the state at the time of the call
            if op.get("pre_writes"):
                # pre_randomize only runs on objects that are random in the call: only their writes happen
                probe = R.Call(self.prog, copy.deepcopy(st), "randomize", target)
                used = set(tuple(pth) for pth, _, u in probe.objs if u)
                for objpath, fname, val in op["pre_writes"]:
                    if tuple(objpath) in used:
                        fdw = R.decl_at(self.prog, frozen, list(objpath) + [fname])
                        R.set_at(frozen, list(objpath) + [fname], R.wrap(val, fdw["w"], fdw["s"]))
            if k == "free":
                call = R.Call(self.prog, frozen, "free", (), fields=op["fields"], inline=inline, inline_self=())
            else:
                call = R.Call(self.prog, frozen, "with" if k == "with" else "randomize", target, inline=inline)
            ev["call"] = call
        except R.Corner as c:
            ev["corner"] = str(c)
            call = None
        ev["pre"] = self.snapshot(inst)
        kw = {}
        if op.get("solve_fail_debug"):
            kw["solve_fail_debug"] = 1
        if op.get("debug"):
            kw["debug"] = op["debug"]
        self.hook.start_call()
        self.bt.log = []
        exc = None
        try:
            with quiet():
                if k == "randomize":
                    self.live_at(inst, target).randomize(**kw)
                elif k == "with":
                    tgt = self.live_at(inst, target)
                    with tgt.randomize_with(**kw) as it:
                        B.Emitter(self.bt, it).stmts(inline)
                else:
                    from vsc.model.rand_state import RandState
                    fos = []
                    for fp in op["fields"]:
                        node = R.get_at(st, fp)
                        if isinstance(node, dict) and "cls" in node:
                            fos.append(self.live_at(inst, fp))
                        else:
                            fos.append(self.raw_field(inst, fp))
                    rs = RandState.mkFromSeed(op.get("seed", 7), "free")
                    if inline is None:
                        vsc.randomize(*fos, randstate=rs, **kw)
                    else:
                        with vsc.randomize_with(*fos, randstate=rs, **kw):
                            B.Emitter(self.bt, self.live[inst]).stmts(inline)
        except BaseException as e:   # noqa
            if isinstance(e, (KeyboardInterrupt, SystemExit)) or type(e).__name__ == "CaseTimeout":
                raise
            exc = e
        ev["records"] = self.hook.end_call()
        # map of the library's field models to reference leaves, taken now (later list edits re-create models)
        lm, keep = {}, []
        if call is not None:
            for p_, t_ in call.rand_leaves:
                try:
                    fm = self.model_at(inst, list(p_))
                except Exception:
                    fm = None
                if fm is not None:
                    lm[id(fm)] = (p_, t_)
                    keep.append(fm)
        ev["leaf_models"] = lm
        ev["_keep_models"] = keep
        ev["cb_log"] = list(self.bt.log)
        # identity of the live objects of the call's tree, for attributing callback records (M5)
        ids = {}
        if call is not None:
            for opath, ost, used in call.objs:
                try:
                    ids[id(self.live_at(inst, list(opath)))] = (opath, used)
                except Exception:
                    pass
        ev["obj_ids"] = ids
        ev["non_idle"] = non_idle()
        if exc is None:
            ev["outcome"] = "ok"
        else:
            name = type(exc).__name__
            ev["outcome"] = "SolveFailure" if name == "SolveFailure" else "exc"
            ev["exc_type"] = name
            ev["exc_in_lib"] = raised_in_library(exc)
            ev["exc_msg"] = (str(exc) or repr(exc))[:300]
            ev["exc_tb"] = "".join(traceback.format_exception(type(exc), exc, exc.__traceback__))[-1200:]
            exc = None   # never keep the exception object: its traceback would tie solver clones into a reference cycle
            reset_lib_state()
        # M4: solver handles left in the object's model after the call (observation), then scrub them so
        # that pyboolector nodes never end up in a garbage cycle of the harness process
        try:
            ev["leftover_handles"] = model_handles(self.live[inst].get_model(), scrub=True)
        except Exception:
            ev["leftover_handles"] = None
        try:
            ev["post"] = self.snapshot(inst)
        except Exception as e:  # a read path that raises is itself an observation
            ev["post"] = None
            ev["post_exc"] = repr(e)
        # the reference state follows the live object for the leaves that were random in the call
        if ev["post"] is not None:
            adopt(st, ev["post"])
        self.events.append(ev)
        return ev


def snapshot_obj(o, prog, cname, vsc):
    """Reads every field of the object tree through the public read paths."""
    out = {"cls": cname, "f": {}, "alt": {}}
    for fd in R.all_fields(prog, cname):
        n = fd["n"]
        k = fd["k"]
        if k == "int":
            v = getattr(o, n)
            out["f"][n] = int(v)
            with vsc.raw_mode():
                fo = getattr(o, n)
            out["alt"][n] = (int(fo.get_val()), int(fo.val))
        elif k == "enum":
            v = getattr(o, n)
            out["f"][n] = getattr(v, "name", repr(v))
        elif k == "obj":
            out["f"][n] = snapshot_obj(getattr(o, n), prog, fd["c"], vsc)
        elif k == "list":
            with vsc.raw_mode():
                l = getattr(o, n)
            try:
                it = list(l)
                ln = len(l)
                sz = l.size
                if fd["ek"] == "int":
                    [int(l[i]) for i in range(ln)]
            except Exception as e:
                # a read path of the library that raises is an observation about the list (its views disagree),
                # not a failure of the harness
                try:
                    ln, sz = len(l), l.size
                except Exception:
                    ln, sz = -1, -1
                out["f"][n] = []
                out["alt"][n] = (ln, sz, ["<reading the list raised %s: %s>" % (type(e).__name__, e)])
                continue
            if fd["ek"] == "obj":
                out["f"][n] = [snapshot_obj(x, prog, fd["c"], vsc) for x in it]
                out["alt"][n] = (ln, sz, None)
            elif fd["ek"] == "enum":
                out["f"][n] = [getattr(x, "name", repr(x)) for x in [l[i] for i in range(ln)]]
                out["alt"][n] = (ln, sz, [getattr(x, "name", repr(x)) for x in it] if False else None)
            else:
                out["f"][n] = [int(x) for x in it]
                out["alt"][n] = (ln, sz, [int(l[i]) for i in range(ln)])
    return out


def snap_get(snap, path):
    o = snap
    for p in path:
        if isinstance(o, dict) and "f" in o:
            o = o["f"][p]
        else:
            o = o[p]
    return o


def adopt(st, snap):
    """copy the values of a live snapshot into the reference state (structure preserved)"""
    for n, v in snap["f"].items():
        cur = st["f"].get(n)
        if isinstance(v, dict):
            adopt(cur, v)
        elif isinstance(v, list):
            if (v and isinstance(v[0], dict)) or (cur and isinstance(cur[0], dict)):
                # list of objects: the objects stay (a random-size list may expose fewer of them after a call)
                for i, sv in enumerate(v):
                    if i < len(cur):
                        adopt(cur[i], sv)
            else:
                st["f"][n] = list(v)
        else:
            st["f"][n] = v


def diff_nonrandom(call, pre, post):
    """leaves that were not random in the call whose value changed"""
    out = []
    for p, t, r in call.leaves:
        if r:
            continue
        rel = p
        try:
            a = snap_get(pre, rel)
            b = snap_get(post, rel)
        except Exception:
            out.append((p, "unreadable", None))
            continue
        if a != b:
            out.append((p, a, b))
    return out


def model_handles(model, scrub=False, _seen=None, _out=None):
    """names of field models that still hold a solver node (var / cached sum or product node)"""
    if _seen is None:
        _seen, _out = set(), []
    if id(model) in _seen:
        return _out
    _seen.add(id(model))
    for attr in ("var", "sum_expr_btor", "product_expr_btor"):
        if getattr(model, attr, None) is not None:
            _out.append("%s.%s" % (getattr(model, "fullname", "?"), attr))
            if scrub:
                setattr(model, attr, None)
    sz = getattr(model, "size", None)
    if sz is not None and hasattr(sz, "var"):
        model_handles(sz, scrub, _seen, _out)
    for f in getattr(model, "field_l", []) or []:
        model_handles(f, scrub, _seen, _out)
    return _out
