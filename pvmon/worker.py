"""Worker process: runs the cases idx = w, w+n, w+2n, ... of one property."""
import importlib
import json
import signal
import sys
import time
import traceback

from . import common


class CaseTimeout(BaseException):
    """raised by the per-case alarm; a BaseException so that no 'except Exception' on the way (harness or library)
    can turn the harness's own time limit into an observed outcome of the library"""
    pass


def _alarm(signum, frame):
    raise CaseTimeout()


def run_one(mod, prop, tier, seed, idx, case_timeout):
    rng = common.case_rng(prop, tier, seed, idx)
    spec = None
    t0 = time.time()
    try:
        spec = mod.gen_case(rng, tier, idx)
        if spec is None:
            return {"idx": idx, "status": common.INCONC, "kind": "gen-none"}
        signal.alarm(case_timeout)
        try:
            res = mod.exec_case(spec)
        finally:
            signal.alarm(0)
    except CaseTimeout:
        res = {"status": common.INCONC, "kind": "case-timeout"}
    except Exception:
        res = {"status": common.INCONC, "kind": "harness-error", "msg": traceback.format_exc()[-1500:]}
    res["idx"] = idx
    res["t"] = round(time.time() - t0, 3)
    if "hash" not in res and spec is not None:
        res["hash"] = common.canon_hash(spec)
    if res.get("status") == common.VIOL or res.get("kind") == "harness-error":
        res["spec"] = spec
    return res


def main():
    prop, tier, seed, w, n, ncases, out, budget = sys.argv[1:9]
    seed, w, n, ncases, budget = int(seed), int(w), int(n), int(ncases), float(budget)
    start = int(sys.argv[9]) if len(sys.argv) > 9 else w
    mod = importlib.import_module("pvmon.props." + prop)
    signal.signal(signal.SIGALRM, _alarm)
    case_timeout = int(getattr(mod, "CASE_TIMEOUT", 60))
    t0 = time.time()
    nsample = 0
    import gc
    with open(out, "a") as f:
        for idx in range(start, ncases, n):
            if time.time() - t0 > budget:
                f.write(json.dumps({"idx": idx, "status": "notrun"}) + "\n")
                continue
            res = run_one(mod, prop, tier, seed, idx, case_timeout)
            if res.get("status") != common.VIOL and "source" in res:
                if nsample >= 2:
                    res.pop("source", None)
                else:
                    nsample += 1
            f.write(json.dumps(res, default=str) + "\n")
            f.flush()
            res = None
            try:
                from .session import _HOOK
                if _HOOK is not None:
                    _HOOK.release_all()
            except Exception:
                pass
            try:
                from .libstate import scrub_all_models
                scrub_all_models()
            except Exception:
                pass
            gc.collect()


if __name__ == "__main__":
    main()
