"""./check <Cxx> [--tier quick|thorough] [--seed N] [--replay file] [--cases N] [--workers N]"""
import argparse
import importlib
import json
import os
import sys
import time

from . import common


def aggregate(prop, mod, tier, seed, results, info, wall):
    tot = common.Counters()
    status_n = common.Counters()
    kinds = common.Counters()
    seen_nontrivial = set()
    samples = []
    viols = []
    for r in results:
        st = r.get("status")
        status_n.inc(st)
        if st == "notrun":
            continue
        if r.get("kind"):
            kinds.inc("%s:%s" % (st, r["kind"]))
        common.merge_counters(tot, r.get("counters", {}))
        if r.get("nontrivial") and r.get("hash"):
            seen_nontrivial.add(r["hash"])
        if r.get("source") and len(samples) < 4 and st != common.VIOL:
            samples.append(r["source"])
        if st == common.VIOL:
            viols.append(r)
    evaluations = sum(v for k, v in status_n.items() if k != "notrun")
    known = common.open_findings(prop)
    reported, suppressed = [], {}
    for v in viols:
        key = v.get("finding")
        keys = key.split("+") if key else []
        if keys and all(k in known for k in keys):
            for k in keys:
                suppressed.setdefault(k, []).append(v)
        else:
            reported.append(v)
    # run-level observation requirement
    ok, why = True, ""
    if hasattr(mod, "min_observation"):
        ok, why = mod.min_observation(tot, status_n, tier)
    if evaluations == 0:
        ok, why = False, "no case was executed"
    if info.get("worker_crashes", 0) and evaluations < 0.5 * max(1, len(results)):
        ok, why = False, "worker processes crashed: %s" % info.get("crash_logs", [""])[:1]
    inconc = status_n.get(common.INCONC, 0)
    if evaluations and inconc > 0.5 * evaluations:
        ok, why = False, "more than half of the cases were inconclusive: %s" % dict(kinds)
    cov = {
        "evaluations": evaluations,
        "distinct_nontrivial": len(seen_nontrivial),
        "rule": mod.RULE,
        "samples": samples or ["(no sample recorded)"],
        "status_counts": dict(status_n),
        "kinds": dict(kinds),
        "monitor_counters": dict(tot),
        "known_findings_seen": {k: len(v) for k, v in suppressed.items()},
        "run_observed_enough": ok,
        "inconclusive_reason": why,
        "workers": info,
    }
    if hasattr(mod, "extra_coverage"):
        cov.update(mod.extra_coverage(tot, results, tier))
    common.write_evidence(prop, tier, seed, mod.LEVEL, cov, mod.ASSUMPTIONS, wall, len(reported))
    for key, vs in sorted(suppressed.items()):
        print("KNOWN-FINDING: property=%s %s [%s] (%d witnesses this run; e.g. %s)" % (
            prop, known[key]["what"], key, len(vs), (vs[0].get("msg") or "")[:160].replace("\n", " ")))
    # report at most 10 violations, one replay each
    seen_kinds = set()
    nprint = 0
    for v in reported:
        k = v.get("kind")
        if k in seen_kinds and nprint >= 3:
            continue
        seen_kinds.add(k)
        if nprint >= 10:
            break
        p = common.write_replay(prop, tier, seed, v)
        print("VIOLATION property=%s replay=%s" % (prop, p))
        print("  kind=%s %s" % (k, (v.get("msg") or "")[:400].replace("\n", " | ")))
        nprint += 1
    print("%s tier=%s seed=%d cases=%d distinct_nontrivial=%d violations=%d known=%d inconclusive=%d notrun=%d wall=%.1fs" % (
        prop, tier, seed, evaluations, len(seen_nontrivial), len(reported),
        sum(len(v) for v in suppressed.values()), inconc, status_n.get("notrun", 0), wall))
    print("  counters: " + json.dumps({k: v for k, v in tot.items() if isinstance(v, (int, float))}, sort_keys=True))
    if kinds:
        print("  kinds: " + json.dumps(dict(kinds), sort_keys=True))
    if reported:
        return 1
    if not ok:
        print("INCONCLUSIVE property=%s %s" % (prop, why))
        return 2
    return 0


def main():
    ap = argparse.ArgumentParser()
    ap.add_argument("prop")
    ap.add_argument("--tier")
    ap.add_argument("--seed")
    ap.add_argument("--replay")
    ap.add_argument("--cases", type=int)
    ap.add_argument("--workers", type=int)
    ap.add_argument("--idx", type=int, help="run a single generated case in-process, verbosely")
    a = ap.parse_args()
    prop = a.prop
    tier = common.get_tier(a.tier)
    seed = common.get_seed(a.seed)
    mod = importlib.import_module("pvmon.props." + prop)
    if a.replay or a.idx is not None:
        if a.replay:
            with open(a.replay) as f:
                rp = json.load(f)
            spec = rp["spec"]
        else:
            spec = mod.gen_case(common.case_rng(prop, tier, seed, a.idx), tier, a.idx)
        res = mod.exec_case(spec)
        print(json.dumps({k: v for k, v in res.items() if k != "spec"}, indent=1, default=str))
        if res.get("status") == common.VIOL:
            known = common.open_findings(prop)
            fk = (res.get("finding") or "").split("+")
            if res.get("finding") and all(k in known for k in fk):
                for k in fk:
                    print("KNOWN-FINDING: property=%s %s" % (prop, known[k]["what"]))
                return 0
            print("VIOLATION property=%s replay=%s" % (prop, a.replay or "idx:%d" % a.idx))
            return 1
        return 0
    t0 = time.time()
    # replays of earlier runs of this property/tier are stale: remove them
    import glob
    for f in glob.glob(os.path.join(common.VERIF, "replays", prop, "%s-s*.json" % tier)):
        try:
            os.remove(f)
        except OSError:
            pass
    if hasattr(mod, "run"):
        # property-specific driver (still uses aggregate for the verdict)
        results, info = mod.run(tier, seed, a)
    else:
        pl = mod.plan(tier)
        ncases = a.cases or pl["ncases"]
        results, info = common.run_workers(prop, tier, seed, ncases, pl["budget_s"], a.workers)
    return aggregate(prop, mod, tier, seed, results, info, time.time() - t0)


if __name__ == "__main__":
    sys.exit(main())
