"""Runs one C09 scenario in a fresh interpreter and prints its value trace as JSON.

usage: python -m pvmon.c09_runner <scenario.json> <variant.json>

The scenario fixes class definitions, seeds and the call history; the variant
selects nuisance factors that the property says are irrelevant: noise
interleaved between the calls, diagnostic settings, source-info capture.  The
same runner also performs the snapshot/restore replays inside the process."""
import gc
import io
import json
import random
import sys


def main():
    sc = json.load(open(sys.argv[1]))
    var = json.load(open(sys.argv[2]))
    import vsc
    from vsc.model.rand_state import RandState
    from pvmon import build as B
    from pvmon.session import snapshot_obj
    from pvmon.libstate import quiet, reset_lib_state

    prog = sc["prog"]
    noise = var.get("noise", [])
    kw = {}
    if var.get("debug"):
        kw["debug"] = 1
    if var.get("solve_fail_debug"):
        kw["solve_fail_debug"] = 1
    explicit = sc["mode"] == "explicit"
    if not explicit:
        random.seed(sc["global_seed"])
    with quiet():
        bt = B.build(vsc, prog, srcinfo=bool(var.get("srcinfo")))
    extra_objs = []
    nrng = random.Random(12345)      # the noise has its own generator: it must never influence the scenario

    def make_noise(step):
        if "gc" in noise:
            junk = [[i] * 10 for i in range(2000)]
            del junk
            gc.collect()
        if "class_defs" in noise:
            @vsc.randobj
            class Extra(object):
                def __init__(self):
                    self.q = vsc.rand_bit_t(5)
                    self.r = vsc.rand_bit_t(5)

                @vsc.constraint
                def c(self):
                    self.q < self.r
            e = Extra()
            e.set_randstate(RandState.mkFromSeed(nrng.randint(0, 999)))
            with quiet():
                e.randomize()
            extra_objs.append(e)
        if "other_objects" in noise:
            with quiet():
                o2 = bt.new(prog["top"])
            # unrelated objects carry their own explicit state: they must not perturb the object under test
            o2.set_randstate(RandState.mkFromSeed(nrng.randint(0, 999)))
            try:
                with quiet():
                    o2.randomize()
            except Exception:
                reset_lib_state()
            extra_objs.append(o2)
        if "global_random" in noise and explicit:
            # only when the scenario uses explicit RandStates everywhere: otherwise the global seed legitimately matters
            random.random()
            random.seed(nrng.randint(0, 1 << 30))
            random.getrandbits(17)
        if "default_state_objects" in noise and explicit:
            # other objects randomized from the DEFAULT (global) state draw from Python's global random
            with quiet():
                o3 = bt.new(prog["top"])
            try:
                with quiet():
                    o3.randomize()
            except Exception:
                reset_lib_state()

    def snap(o):
        return snapshot_obj(o, prog, prog["top"], vsc)["f"]

    def restore(obj, cname, vals):
        """put every field of the object tree back to the values it had when the snapshot was taken"""
        from pvmon import ref as R
        for fd in R.all_fields(prog, cname):
            n_ = fd["n"]
            if n_ not in vals:
                continue
            v_ = vals[n_]
            try:
                if fd["k"] == "int":
                    setattr(obj, n_, v_)
                elif fd["k"] == "enum":
                    setattr(obj, n_, bt.enums[fd["e"]][v_])
                elif fd["k"] == "obj":
                    restore(getattr(obj, n_), fd["c"], v_["f"])
                elif fd["k"] == "list":
                    if fd["ek"] == "obj":
                        with vsc.raw_mode():
                            l = getattr(obj, n_)
                        for i, sv in enumerate(v_):
                            restore(l[i], fd["c"], sv["f"])
                    elif fd["ek"] == "enum":
                        setattr(obj, n_, [bt.enums[fd["e"]][x] for x in v_])
                    else:
                        setattr(obj, n_, list(v_))
            except Exception:
                pass

    def do_call(o, op, rs_free=None):
        k = op["op"]
        try:
            with quiet():
                if k == "randomize":
                    o.randomize(**kw)
                elif k == "with":
                    with o.randomize_with(**kw) as it:
                        B.Emitter(bt, it).stmts(op["inline"])
                elif k == "free":
                    fos = []
                    for fp in op["fields"]:
                        with vsc.raw_mode():
                            fos.append(getattr(o, fp[0]))
                    fk = dict(kw)
                    fk["randstate"] = rs_free if explicit else None
                    if fk["randstate"] is None:
                        fk.pop("randstate")
                    vsc.randomize(*fos, **fk)
                elif k == "set":
                    setattr(o, op["path"][0], op["v"])
                    return ("set", None)
            return ("ok", snap(o))
        except Exception as e:
            reset_lib_state()
            return (type(e).__name__, None)

    with quiet():
        o = bt.new(prog["top"])
    if explicit:
        # numeric seed, or seed qualified by a string (e.g. an instance path), both documented ways to build a state
        if sc.get("seed_str"):
            o.set_randstate(RandState.mkFromSeed(sc["seed"], sc["seed_str"]))
        else:
            o.set_randstate(RandState.mkFromSeed(sc["seed"]))
    rs_free = RandState.mkFromSeed(sc["seed"] + 1, sc.get("seed_str"))
    hist = sc["hist"]
    trace = []
    replay = {"checked": 0, "bad": []}
    snap_at = sc.get("snapshot_at")
    saved = None
    saved_free = None
    tail_trace = None
    for i, op in enumerate(hist):
        if snap_at is not None and i == snap_at:
            # snapshot of the random state (also possible before the object ever had one)
            saved = o.get_randstate()
            saved_free = rs_free.clone()
            saved_vals = snap(o)
        make_noise(i)
        trace.append(do_call(o, op, rs_free))
    if saved is not None:
        tail = hist[snap_at:]
        want = trace[snap_at:]
        for rep in range(2):
            # restoring the snapshot replays exactly the values that followed it; one RandState seeds several replays,
            # and consuming the source object in between must not matter
            restore(o, prog["top"], saved_vals)
            o.set_randstate(saved)
            rs2 = saved_free.clone()
            got = []
            for op in tail:
                got.append(do_call(o, op, rs2))
            replay["checked"] += 1
            if got != want:
                first = next((j for j, (a, b) in enumerate(zip(got, want)) if a != b), None)
                replay["bad"].append({"replay": rep, "first_diff_step": first,
                                      "got": got[first] if first is not None else None,
                                      "want": want[first] if first is not None else None})
            # burn the object's current state: must not affect `saved`
            try:
                with quiet():
                    o.randomize()
            except Exception:
                reset_lib_state()
    sys.stdout.write("\n@@C09TRACE@@" + json.dumps({"trace": trace, "replay": replay}, sort_keys=True, default=str) + "\n")


if __name__ == "__main__":
    main()
