"""M3 - choice-point injection: the single-threaded analogue of schedule
injection.  The library's only source of nondeterminism in randomize() is its
RandState; ChoiceRandState turns every draw into an enumerated decision point
(depth-first with replay of the prefix), so running the real randomize() once
per path yields the EXACT output distribution (path probability = product of
1/n_i as a Fraction) and the exact support of a tiny program."""
import random
import time
from fractions import Fraction


class Unsupported(Exception):
    """the library drew randomness through a primitive the enumerator does not model"""


class NonDeterministic(Exception):
    """replaying a prefix met a different fan-out: the run depends on something besides the choices"""


class Chooser(object):
    def __init__(self):
        self.prefix = []
        self.pos = 0
        self.prob = Fraction(1)
        self.n_choices = 0

    def start(self):
        self.pos = 0
        self.prob = Fraction(1)

    def choose(self, n):
        if n <= 0:
            raise ValueError("empty range for randint")
        if self.pos < len(self.prefix):
            i, m = self.prefix[self.pos]
            if m != n:
                raise NonDeterministic("fan-out %d replayed as %d at depth %d" % (m, n, self.pos))
        else:
            i = 0
            self.prefix.append((0, n))
        self.pos += 1
        self.prob *= Fraction(1, n)
        self.n_choices += 1
        return i

    def advance(self):
        self.prefix = self.prefix[:self.pos]
        while self.prefix and self.prefix[-1][0] + 1 >= self.prefix[-1][1]:
            self.prefix.pop()
        if not self.prefix:
            return False
        i, n = self.prefix[-1]
        self.prefix[-1] = (i + 1, n)
        return True


class ChoiceRandom(random.Random):
    def __init__(self, chooser):
        super().__init__(0)
        self._ch = chooser

    def seed(self, *a, **k):
        pass

    def randint(self, a, b):
        a, b = int(a), int(b)
        if b < a:
            raise ValueError("empty range in randint(%d, %d)" % (a, b))
        return a + self._ch.choose(b - a + 1)

    def randrange(self, start, stop=None, step=1):
        if stop is None:
            start, stop = 0, start
        if step != 1:
            raise Unsupported("randrange with step")
        if stop <= start:
            raise ValueError("empty range in randrange(%d, %d)" % (start, stop))
        return start + self._ch.choose(stop - start)

    def _randbelow(self, n):
        return self._ch.choose(n)

    def random(self):
        raise Unsupported("random()")

    def getrandbits(self, k):
        raise Unsupported("getrandbits()")

    def getstate(self):
        return ("choice",)

    def setstate(self, st):
        pass


def make_randstate(chooser):
    from vsc.model.rand_state import RandState

    class ChoiceRandState(RandState):
        def __init__(self, ch):
            self.rng = ChoiceRandom(ch)

        def clone(self):
            return self      # set_randstate() copies its argument: the copy must stay attached to the chooser

    return ChoiceRandState(chooser)


def enumerate_paths(run, max_paths=20000, max_seconds=60.0):
    """run(randstate) -> hashable outcome (or raises).  Returns dict:
       dist: outcome -> exact probability (Fraction); complete: bool; paths; errors."""
    ch = Chooser()
    rs = make_randstate(ch)
    dist = {}
    paths = 0
    errors = {}
    t0 = time.time()
    complete = False
    total = Fraction(0)
    while True:
        ch.start()
        try:
            out = run(rs)
        except (Unsupported, NonDeterministic) as e:
            return {"dist": dist, "complete": False, "paths": paths, "errors": errors, "abort": repr(e), "total": total,
                    "choices": ch.n_choices}
        except Exception as e:       # the library raised on this path: an outcome of its own
            if type(e).__name__ == "CaseTimeout":
                raise
            out = ("raised", type(e).__name__)
            errors[type(e).__name__] = errors.get(type(e).__name__, 0) + 1
        dist[out] = dist.get(out, Fraction(0)) + ch.prob
        total += ch.prob
        paths += 1
        if not ch.advance():
            complete = True
            break
        if paths >= max_paths or time.time() - t0 > max_seconds:
            break
    return {"dist": dist, "complete": complete, "paths": paths, "errors": errors, "abort": None, "total": total,
            "choices": ch.n_choices}
