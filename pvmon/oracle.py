"""Oracles over session events: value check, type check, pointwise formula
equivalence (M2), bounds containment (C14)."""
import itertools

from . import ref as R
from .session import snap_get


def enum_member_values(prog, t):
    return {m: v for m, v in prog["enums"][t[1]]}


def to_int(prog, t, v):
    """integer (signed view) of a leaf value as the solver sees it"""
    if t[0] == "enum":
        return enum_member_values(prog, t)[v]
    return v


def leaf_value(prog, call, snap, p, t):
    """value of a leaf in a snapshot; the size leaf of a random-size list is the exposed length, elements
    beyond it do not exist (placeholder = first value of the domain)"""
    if t[0] == "size":
        return len(snap_get(snap, p[:-1]))
    # an element (or a field of an element) beyond the exposed length does not exist: placeholder value
    for i, step in enumerate(p):
        if isinstance(step, int):
            l = snap_get(snap, p[:i])
            if step >= len(l):
                return list(R.leaf_domain(prog, t))[0]
    return snap_get(snap, p)


def post_env(call, post):
    env = {}
    for p, t in call.rand_leaves:
        env[p] = leaf_value(call.prog, call, post, p, t)
    return env


def check_type(call, post, prog):
    """every random leaf inside its declared type"""
    bad = []
    for p, t in call.rand_leaves:
        if t[0] == "size":
            continue
        if any(isinstance(st_, int) and st_ >= len(snap_get(post, p[:i_])) for i_, st_ in enumerate(p)):
            continue
        v = snap_get(post, p)
        if t[0] == "int":
            w, s = t[1], t[2]
            lo, hi = (-(1 << (w - 1)), (1 << (w - 1)) - 1) if s else (0, (1 << w) - 1)
            if not isinstance(v, int) or not (lo <= v <= hi):
                bad.append((p, v, "outside %s%d" % ("int" if s else "bit", w)))
        else:
            if v not in enum_member_values(prog, t):
                bad.append((p, v, "not an enumerator of %s" % t[1]))
    return bad


def check_values(call, post):
    """hard statements violated by the values readable after the call"""
    env = post_env(call, post)
    return call.violated(env)


def leaf_model_map(sess, inst, call, ev=None):
    if ev is not None and ev.get("leaf_models") is not None:
        return ev["leaf_models"]
    m = {}
    for p, t in call.rand_leaves:
        fm = sess.model_at(inst, list(p))
        if fm is not None:
            m[id(fm)] = (p, t)
    return m


def pointwise(sess, inst, ev, max_points=1 << 14, sols=None):
    """M2: p in S_ref  <=>  for every batch, hard formula SAT at p|batch.
    Returns dict(status=..., mismatches=[...], points=n, batches=n)."""
    call = ev["call"]
    prog = sess.prog
    recs = ev.get("records") or []
    out = {"status": "ok", "mismatches": [], "points": 0, "batches": 0, "sat_calls": 0}
    if len(recs) != 1:
        out["status"] = "no-single-record(%d)" % len(recs)
        return out
    rec = recs[0]
    if ev.get("outcome") != "ok" and len(rec.batches) < rec.n_randsets:
        # the call raised before every rand set was lowered: the formula seen at the hook is incomplete
        out["status"] = "call-aborted-before-all-batches"
        return out
    if call.domain_size() > max_points:
        out["status"] = "domain-too-large"
        return out
    if call.has_random_size():
        out["status"] = "random-size-list"
        return out
    lm = leaf_model_map(sess, inst, call, ev)
    paths = [p for p, _ in call.rand_leaves]
    types = dict(call.rand_leaves)
    doms = {p: list(R.leaf_domain(prog, t)) for p, t in call.rand_leaves}
    if sols is None:
        sols = call.enumerate(limit=max_points)
    sref = set(sols)
    batch_sets = []
    covered = set()
    for b in rec.batches:
        bl = []
        for fm, var, w, s, en in b.vars:
            if id(fm) not in lm:
                out["status"] = "unmapped-solver-variable:%s" % getattr(fm, "fullname", "?")
                return out
            bl.append(lm[id(fm)][0])
        covered.update(bl)
        satset = set()
        fms = [fm for fm, *_ in b.vars]
        for tup in itertools.product(*[doms[p] for p in bl]):
            asg = {id(fm): to_int(prog, types[p], v) for fm, p, v in zip(fms, bl, tup)}
            out["sat_calls"] += 1
            if b.sat_at(asg):
                satset.add(tup)
        # enum variables: values that are no enumerator must be excluded by the formula
        for fm, p in zip(fms, bl):
            t = types[p]
            if t[0] == "enum":
                vals = set(enum_member_values(prog, t).values())
                for probe in (max(vals) + 1, min(vals) - 1):
                    if probe in vals:
                        continue
                    base = {id(f2): to_int(prog, types[p2], doms[p2][0]) for f2, p2 in zip(fms, bl)}
                    # any companion values: try the first satisfying tuple if there is one
                    cands = [dict(zip(bl, tp)) for tp in list(satset)[:3]] or [None]
                    for cand in cands:
                        asg = dict(base)
                        if cand:
                            for f2, p2 in zip(fms, bl):
                                asg[id(f2)] = to_int(prog, types[p2], cand[p2])
                        asg[id(fm)] = probe
                        out["sat_calls"] += 1
                        if b.sat_at(asg):
                            out["mismatches"].append(("enum-non-enumerator-admitted", p, probe))
        batch_sets.append((bl, satset))
        out["batches"] += 1
    idx = {p: i for i, p in enumerate(paths)}
    n = 0
    for tup in itertools.product(*[doms[p] for p in paths]):
        n += 1
        in_lib = True
        for bl, satset in batch_sets:
            if tuple(tup[idx[p]] for p in bl) not in satset:
                in_lib = False
                break
        in_ref = tup in sref
        if in_lib != in_ref:
            if len(out["mismatches"]) < 6:
                out["mismatches"].append(("ref-accepts-lib-rejects" if in_ref else "lib-accepts-ref-rejects",
                                          dict(zip([".".join(map(str, p)) for p in paths], tup))))
            else:
                out["mismatches"].append(None)
    out["points"] = n
    out["n_mismatch"] = len(out["mismatches"])
    out["mismatches"] = [m for m in out["mismatches"] if m is not None]
    if out["mismatches"]:
        out["status"] = "mismatch"
    return out


def bounds_check(sess, inst, ev, sols):
    """C14: the range list the library inferred for every random leaf contains
    the projection of the reference solution set; an unmentioned leaf ranges
    over its whole type.  Returns (violations, info)."""
    call = ev["call"]
    prog = sess.prog
    recs = ev.get("records") or []
    if len(recs) != 1:
        return [], {"status": "no-single-record"}
    rec = recs[0]
    lm = leaf_model_map(sess, inst, call, ev)
    by_path = {p: fid for fid, (p, t) in lm.items()}
    paths = [p for p, _ in call.rand_leaves]
    viol = []
    info = {"status": "ok", "narrowed": 0, "checked": 0}
    for i, (p, t) in enumerate(call.rand_leaves):
        fid = by_path.get(p)
        if fid is None or fid not in rec.bounds:
            continue
        rl = rec.bounds[fid]
        proj = set(to_int(prog, t, s[i]) for s in sols)
        info["checked"] += 1
        dom = [to_int(prog, t, v) for v in R.leaf_domain(prog, t)]
        covered = [v for v in dom if any(lo <= v <= hi for lo, hi in rl)]
        if len(covered) < len(dom):
            info["narrowed"] += 1
        missing = sorted(v for v in proj if not any(lo <= v <= hi for lo, hi in rl))
        if missing:
            viol.append((p, rl, missing[:8]))
    return viol, info


def pointwise_sampled(sess, inst, ev, seeds_env, rng, n=120):
    """M2 beyond the bounded domain: compare reference and library formula on sampled points - the given seed
    assignments (returned solution, planted witness) and single/double-leaf perturbations of them (boundary values
    first).  Returns dict(status, mismatches, points)."""
    call = ev["call"]
    prog = sess.prog
    recs = ev.get("records") or []
    out = {"status": "ok", "mismatches": [], "points": 0, "batches": 0, "sat_calls": 0}
    if len(recs) != 1:
        out["status"] = "no-single-record(%d)" % len(recs)
        return out
    if call.has_random_size():
        out["status"] = "random-size-list"
        return out
    rec = recs[0]
    if ev.get("outcome") != "ok" and len(rec.batches) < rec.n_randsets:
        out["status"] = "call-aborted-before-all-batches"
        return out
    lm = leaf_model_map(sess, inst, call, ev)
    paths = [p for p, _ in call.rand_leaves]
    types = dict(call.rand_leaves)
    batches = []
    for b in rec.batches:
        bl = []
        for fm, var, w, s, en in b.vars:
            if id(fm) not in lm:
                out["status"] = "unmapped-solver-variable"
                return out
            bl.append((fm, lm[id(fm)][0]))
        batches.append((b, bl))
    out["batches"] = len(batches)

    def dom_sample(t):
        if t[0] == "enum":
            return rng.choice([m for m, _ in prog["enums"][t[1]]])
        w, sg = t[1], t[2]
        lo, hi = (-(1 << (w - 1)), (1 << (w - 1)) - 1) if sg else (0, (1 << w) - 1)
        c = rng.random()
        if c < 0.35:
            return rng.choice([lo, hi, 0, 1, -1 if sg else hi - 1, lo + 1])
        if c < 0.6:
            return rng.randint(max(lo, -16), min(hi, 16))
        return rng.randint(lo, hi)
    points = []
    for env in seeds_env:
        if env is None:
            continue
        points.append(dict(env))
        for _ in range(n // max(1, len(seeds_env))):
            q = dict(env)
            for p in rng.sample(paths, min(len(paths), rng.choice([1, 1, 1, 2]))):
                t = types[p]
                if t[0] == "int" and rng.random() < 0.4 and isinstance(env[p], int):
                    w, sg = t[1], t[2]
                    lo, hi = (-(1 << (w - 1)), (1 << (w - 1)) - 1) if sg else (0, (1 << w) - 1)
                    q[p] = min(hi, max(lo, env[p] + rng.choice([-2, -1, 1, 2])))
                else:
                    q[p] = dom_sample(t)
            points.append(q)
    for q in points:
        try:
            in_ref = call.holds(q)
        except R.Corner:
            continue
        in_lib = True
        for b, bl in batches:
            asg = {id(fm): to_int(prog, types[p], q[p]) for fm, p in bl}
            out["sat_calls"] += 1
            if not b.sat_at(asg):
                in_lib = False
                break
        out["points"] += 1
        if in_ref != in_lib:
            if len(out["mismatches"]) < 6:
                out["mismatches"].append(("ref-accepts-lib-rejects" if in_ref else "lib-accepts-ref-rejects",
                                          {".".join(map(str, p)): v for p, v in q.items()}))
    out["n_mismatch"] = len(out["mismatches"])
    if out["mismatches"]:
        out["status"] = "mismatch"
    return out
