"""Seeded, typed generators of constraint programs and histories.  They stay
inside the documented input language and inside the part of it on which the
reference semantics is uncontested (see ref.Corner)."""
import copy

from . import ref as R


class G(object):
    def __init__(self, rng, max_bits=10, opts=None):
        self.rng = rng
        self.max_bits = max_bits
        self.o = dict(opts or {})
        self.fields = []      # decls of the class under construction (ints/enums only for expression leaves)
        self.enums = {}

    # ------------------------------------------------------------------ fields
    def mk_enum(self, name=None):
        r = self.rng
        name = name or "E%d" % len(self.enums)
        n = r.randint(2, 5)
        if r.random() < 0.5:
            vals = list(range(n))
        else:
            vals = sorted(r.sample(range(-6, 40), n))
        self.enums[name] = [["m%d" % i, v] for i, v in enumerate(vals)]
        return name

    def int_field(self, name, rand, w=None, signed=None):
        r = self.rng
        if w is None:
            w = r.choice([1, 2, 2, 3, 3, 3, 4, 4, 5]) if rand else r.choice([1, 2, 3, 4, 5, 6, 8])
        if signed is None:
            signed = r.random() < 0.4
        fd = {"n": name, "k": "int", "w": w, "s": signed, "r": rand}
        if not rand or r.random() < 0.3:
            # boundary and negative initial values are the interesting ones for non-random fields
            fd["i"] = self.rand_val(w, signed)
        return fd

    def rand_val(self, w, signed):
        r = self.rng
        lo, hi = (-(1 << (w - 1)), (1 << (w - 1)) - 1) if signed else (0, (1 << w) - 1)
        c = r.random()
        if c < 0.25:
            return r.choice([lo, hi, 0, -1 if signed else hi, 1 if hi >= 1 else 0])
        return r.randint(lo, hi)

    def scalar_fields(self, nrand=None, nnon=None, allow_enum=True, prefix="f"):
        """random + non-random scalar fields within the bit budget"""
        r = self.rng
        nrand = nrand if nrand is not None else r.randint(2, 4)
        nnon = nnon if nnon is not None else r.choice([0, 0, 1, 1, 2])
        out = []
        bits = 0
        for i in range(nrand):
            if allow_enum and r.random() < 0.15:
                en = self.mk_enum() if (not self.enums or r.random() < 0.5) else r.choice(sorted(self.enums))
                fd = {"n": "%s%d" % (prefix, len(out)), "k": "enum", "e": en, "r": True}
                b = R.leaf_bits({"enums": self.enums}, ("enum", en))
            else:
                fd = self.int_field("%s%d" % (prefix, len(out)), True)
                b = fd["w"]
            if bits + b > self.max_bits:
                if fd["k"] == "int" and self.max_bits - bits >= 1:
                    fd["w"] = max(1, self.max_bits - bits)
                    if "i" in fd:
                        fd["i"] = R.wrap(fd["i"], fd["w"], fd["s"])
                    b = fd["w"]
                else:
                    break
            bits += b
            out.append(fd)
        for i in range(nnon):
            if allow_enum and self.enums and r.random() < 0.15:
                en = r.choice(sorted(self.enums))
                # (no initial value: the library ignores i= of enum fields; histories assign one instead)
                fd = {"n": "k%d" % i, "k": "enum", "e": en, "r": False}
            else:
                fd = self.int_field("k%d" % i, False)
            out.append(fd)
        r.shuffle(out)
        return out

    # ------------------------------------------------------------- expressions
    def leaves(self, scope, signed=None, kinds=("int",)):
        """scope: list of (path, decl) usable as operands"""
        out = []
        for p, fd in scope:
            if fd["k"] == "int" and "int" in kinds and (signed is None or fd["s"] == signed):
                out.append((p, fd))
            elif fd["k"] == "enum" and "enum" in kinds:
                out.append((p, fd))
        return out

    def lit(self, signed, near=None, w=None):
        r = self.rng
        w = w or 4
        if signed:
            v = near if near is not None else r.randint(-(1 << (w - 1)) - 1, (1 << (w - 1)))
            if near is not None:
                v = near + r.choice([-1, 0, 0, 1])
            if r.random() < 0.7:
                return ["c", v]
            sw = r.choice([w, w + 1, 8])
            return ["s", R.wrap(v, sw, True), sw]
        v = near if near is not None else r.randint(0, (1 << w))
        if near is not None:
            v = max(0, near + r.choice([-1, 0, 0, 1]))
        if r.random() < 0.6:
            return ["c", v]
        sw = r.choice([w, w + 1, 8])
        return ["u", v & ((1 << sw) - 1), sw]

    def bv(self, scope, signed, depth, wit=None):
        """bit-vector expression whose field leaves all have the given signedness"""
        r = self.rng
        ls = self.leaves(scope, signed)
        if not ls:
            return None
        if depth <= 0 or r.random() < 0.45:
            p, fd = r.choice(ls)
            return ["f", list(p)]
        c = r.random()
        if c < 0.62:
            op = r.choice(["+", "-", "+", "-", "*", "&", "|", "^"])
            a = self.bv(scope, signed, depth - 1)
            if r.random() < 0.5:
                b = self.lit(signed, w=self._w(a, scope))
            else:
                b = self.bv(scope, signed, depth - 1)
            return ["b", op, a, b]
        if c < 0.72 and not signed:
            p, fd = r.choice(ls)
            d = r.randint(1, max(1, (1 << fd["w"]) - 1))
            dw = r.choice([fd["w"], 8, 32])
            dl = ["c", d] if dw == 32 else ["u", d & ((1 << dw) - 1) or 1, dw]
            return ["b", r.choice(["/", "%"]), ["f", list(p)], dl]
        if c < 0.82 and not signed:
            p, fd = r.choice(ls)
            aw = r.randint(1, fd["w"])
            return ["b", r.choice(["<<", ">>"]), ["f", list(p)], ["u", r.randint(0, (1 << aw) - 1), aw]]
        if c < 0.92:
            p, fd = r.choice(self.leaves(scope, None))
            if fd["w"] >= 2 and not signed:
                hi = r.randint(0, fd["w"] - 1)
                lo = r.randint(0, hi)
                return ["ps", list(p), hi, lo] if (hi != lo or r.random() < 0.5) else ["bs", list(p), hi]
        p, fd = r.choice(ls)
        return ["f", list(p)]

    def _w(self, e, scope):
        if e and e[0] == "f":
            for p, fd in scope:
                if list(p) == e[1] and fd["k"] == "int":
                    return fd["w"]
        return 4

    def cmp(self, scope, depth):
        r = self.rng
        ints = self.leaves(scope, None)
        if not ints:
            return None
        c = r.random()
        op = r.choice(["==", "!=", "<", "<=", ">", ">=", "<", ">", "=="])
        if c < 0.12:
            # flat mixed-sign comparison: field vs field
            su = self.leaves(scope, False)
            ss = self.leaves(scope, True)
            if su and ss:
                a = ["f", list(r.choice(su)[0])]
                b = ["f", list(r.choice(ss)[0])]
                if r.random() < 0.5:
                    a, b = b, a
                return ["b", op, a, b]
        signed = r.choice([fd["s"] for _, fd in ints])
        a = self.bv(scope, signed, depth)
        if r.random() < 0.5:
            b = self.lit(signed, w=self._w(a, scope))
        else:
            b = self.bv(scope, signed, depth)
        if a is None or b is None:
            return None
        if r.random() < 0.06 and b[0] == "f" and a[0] != "c":
            # bare int on the left of a comparison (reflected operator)
            return ["b", op, ["c", r.randint(0, 7) if not signed else r.randint(-4, 4)], b]
        return ["b", op, a, b]

    def inset(self, scope, depth):
        r = self.rng
        ints = self.leaves(scope, None)
        enums = self.leaves(scope, None, kinds=("enum",))
        if enums and r.random() < 0.25:
            p, fd = r.choice(enums)
            ms = [m for m, _ in self.enums[fd["e"]]]
            items = [["en", fd["e"], m] for m in r.sample(ms, r.randint(1, max(1, len(ms) - 1)))]
            return [r.choice(["in", "in", "nin"]), ["f", list(p)], items]
        if not ints:
            return None
        p, fd = r.choice(ints)
        signed = fd["s"]
        lhs = ["f", list(p)] if r.random() < 0.8 else (self.bv(scope, signed, 1) or ["f", list(p)])
        items = []
        w = fd["w"]
        lo_t, hi_t = (-(1 << (w - 1)), (1 << (w - 1)) - 1) if signed else (0, (1 << w) - 1)
        for _ in range(r.randint(1, 4)):
            c = r.random()
            if c < 0.5:
                items.append(["c", r.randint(lo_t - 1, hi_t + 1)])
            elif c < 0.85:
                a = r.randint(lo_t, hi_t)
                b = r.randint(lo_t, hi_t)
                if a > b and r.random() < 0.9:
                    a, b = b, a
                items.append(["rng", ["c", a], ["c", b]])
            else:
                same = self.leaves(scope, signed)
                q, qd = r.choice(same)
                if r.random() < 0.5:
                    items.append(["f", list(q)])
                else:
                    items.append(["rng", ["f", list(q)], ["c", hi_t]])
        return [r.choice(["in", "in", "in", "nin"]), lhs, items]

    def enum_cmp(self, scope):
        r = self.rng
        enums = self.leaves(scope, None, kinds=("enum",))
        if not enums:
            return None
        p, fd = r.choice(enums)
        m = r.choice(self.enums[fd["e"]])[0]
        others = [(q, qd) for q, qd in enums if qd["e"] == fd["e"] and q != p]
        if others and r.random() < 0.4:
            return ["b", r.choice(["==", "!="]), ["f", list(p)], ["f", list(r.choice(others)[0])]]
        return ["b", r.choice(["==", "!=", "!="]), ["f", list(p)], ["en", fd["e"], m]]

    def boolean(self, scope, depth, bdepth=2):
        r = self.rng
        c = r.random()
        e = None
        if bdepth > 0 and c < 0.22:
            a = self.boolean(scope, depth, bdepth - 1)
            b = self.boolean(scope, depth, bdepth - 1)
            if a and b:
                e = ["b", r.choice(["&", "|", "|", "^"]), a, b]
        elif bdepth > 0 and c < 0.30:
            a = self.boolean(scope, depth, bdepth - 1)
            if a:
                e = ["n", a]
        elif c < 0.50:
            e = self.inset(scope, depth)
        elif c < 0.56:
            e = self.enum_cmp(scope)
        if e is None:
            e = self.cmp(scope, depth)
        return e

    # -------------------------------------------------------------- statements
    def stmt(self, scope, depth=2, sdepth=1, allow=("e", "if", "imp", "uniq")):
        r = self.rng
        c = r.random()
        if "if" in allow and sdepth > 0 and c < 0.16:
            n = r.choice([1, 1, 2, 3])
            arms = []
            for _ in range(n):
                cond = self.boolean(scope, 1, 1)
                body = [self.stmt(scope, depth, sdepth - 1, allow) for _ in range(r.randint(1, 2))]
                arms.append([cond, [b for b in body if b]])
            els = None
            if r.random() < 0.5:
                els = [b for b in [self.stmt(scope, depth, sdepth - 1, allow)] if b]
            return ["if", arms, els]
        if "imp" in allow and sdepth > 0 and c < 0.26:
            cond = self.boolean(scope, 1, 1)
            body = [self.stmt(scope, depth, sdepth - 1, allow) for _ in range(r.randint(1, 2))]
            return ["imp", cond, [b for b in body if b]]
        if "uniq" in allow and c < 0.33:
            ints = self.leaves(scope, None)
            if len(ints) >= 2:
                signed = r.choice([fd["s"] for _, fd in ints])
                same = self.leaves(scope, signed)
                if len(same) >= 2:
                    k = r.randint(2, min(4, len(same)))
                    return ["uniq", [["f", list(p)] for p, _ in r.sample(same, k)]]
        e = self.boolean(scope, depth)
        return ["e", e] if e else None

    def block(self, scope, name, nst=None, **kw):
        r = self.rng
        nst = nst if nst is not None else r.randint(1, 3)
        st = [s for s in (self.stmt(scope, **kw) for _ in range(nst)) if s]
        return {"n": name, "st": st}


def scope_of(prog, cname, prefix=()):
    """(path, decl) of every scalar reachable from an object of class cname"""
    out = []
    for fd in R.all_fields(prog, cname):
        p = tuple(prefix) + (fd["n"],)
        if fd["k"] in ("int", "enum"):
            out.append((p, fd))
        elif fd["k"] == "obj":
            out.extend(scope_of(prog, fd["c"], p))
        elif fd["k"] == "list" and fd["ek"] == "int":
            for i in range(fd.get("sz", len(fd.get("init", [])))):
                out.append((p + (i,), {"n": fd["n"], "k": "int", "w": fd["w"], "s": fd["s"], "r": fd["r"]}))
        elif fd["k"] == "list" and fd["ek"] == "obj":
            for i in range(fd.get("sz", 0)):
                out.extend(scope_of(prog, fd["c"], p + (i,)))
    return out


def scalar_program(rng, max_bits=10, nblocks=None, opts=None):
    g = G(rng, max_bits, opts)
    fields = g.scalar_fields()
    prog = {"enums": g.enums, "classes": {"C0": {"base": None, "fields": fields, "blocks": []}}, "top": "C0"}
    scope = scope_of(prog, "C0")
    nb = nblocks if nblocks is not None else rng.choice([1, 1, 2, 2, 3])
    for i in range(nb):
        prog["classes"]["C0"]["blocks"].append(g.block(scope, "c%d" % i))
    return prog, g


def validate(prog, hist_calls=1):
    """Raises ref.Corner if the reference refuses the program on its initial state."""
    st = R.new_state(prog, prog["top"])
    call = R.Call(prog, st)
    env = {p: R.get_at(st, p) for p, _ in call.rand_leaves}
    call.holds(env)   # evaluates every statement once -> typing corners surface (data-dependent ones may not)
    return call


def history(g, prog, ncalls=4, kinds=("randomize", "with", "free"), edits=True, inst="o0", inline_allow=("e", "if", "imp")):
    """calls on one instance with fresh non-random values in between"""
    r = g.rng
    top = prog["top"]
    scope = scope_of(prog, top)
    nonrand = [(p, fd) for p, fd in scope if not fd["r"] and len(p) == 1]
    randf = [(p, fd) for p, fd in scope if fd["r"] and len(p) == 1]
    hist = []
    for ci in range(ncalls):
        if edits and nonrand and (ci > 0 or r.random() < 0.5):
            for p, fd in nonrand:
                if r.random() < 0.6:
                    if fd["k"] == "enum":
                        v = r.choice(g.enums[fd["e"]])[0]
                    else:
                        v = g.rand_val(fd["w"], fd["s"])
                    hist.append({"op": "set", "o": inst, "path": list(p), "v": v})
        k = r.choice(kinds)
        if k == "randomize":
            hist.append({"op": "randomize", "o": inst})
        elif k == "with":
            st = [s for s in (g.stmt(scope, depth=1, sdepth=1, allow=inline_allow) for _ in range(r.randint(1, 2))) if s]
            hist.append({"op": "with", "o": inst, "inline": st})
        else:
            cand = [list(p) for p, fd in scope if len(p) == 1]
            if not cand:
                hist.append({"op": "randomize", "o": inst})
                continue
            fs = r.sample(cand, r.randint(1, min(3, len(cand))))
            if r.random() < 0.5:
                hist.append({"op": "free", "o": inst, "fields": fs, "seed": r.randint(0, 999)})
            else:
                # inline constraints of a free-standing call only mention the passed fields and
                # fields that are declared non-random (a random-declared field that is not passed
                # is exercised by the C03 generator only)
                sub = [(p, fd) for p, fd in scope if list(p) in fs or not fd["r"]]
                st = [s for s in (g.stmt(sub, depth=1, sdepth=0, allow=("e",)) for _ in range(1)) if s]
                hist.append({"op": "free", "o": inst, "fields": fs, "inline": st, "seed": r.randint(0, 999)})
    return hist
