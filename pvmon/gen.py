"""Seeded, typed generators of constraint programs and histories.  They stay
inside the documented input language and inside the part of it on which the
reference semantics is uncontested (see ref.Corner)."""
import copy

from . import ref as R


class G(object):
    def __init__(self, rng, max_bits=10, opts=None):
        self.rng = rng
        self.max_bits = max_bits
        self.o = dict(opts or {})
        self.fields = []      # decls of the class under construction (ints/enums only for expression leaves)
        self.enums = {}

    # ------------------------------------------------------------------ fields
    def mk_enum(self, name=None):
        r = self.rng
        name = name or "E%d" % len(self.enums)
        n = r.randint(2, 5)
        if r.random() < 0.5:
            vals = list(range(n))
        else:
            vals = sorted(r.sample(range(-6, 40), n))
        self.enums[name] = [["m%d" % i, v] for i, v in enumerate(vals)]
        return name

    def int_field(self, name, rand, w=None, signed=None):
        r = self.rng
        if w is None:
            w = r.choice([1, 2, 2, 3, 3, 3, 4, 4, 5]) if rand else r.choice([1, 2, 3, 4, 5, 6, 8])
        if signed is None:
            signed = r.random() < 0.4
        fd = {"n": name, "k": "int", "w": w, "s": signed, "r": rand}
        if not rand or r.random() < 0.3:
            # boundary and negative initial values are the interesting ones for non-random fields
            fd["i"] = self.rand_val(w, signed)
        return fd

    def rand_val(self, w, signed):
        r = self.rng
        lo, hi = (-(1 << (w - 1)), (1 << (w - 1)) - 1) if signed else (0, (1 << w) - 1)
        c = r.random()
        if c < 0.25:
            return r.choice([lo, hi, 0, -1 if signed else hi, 1 if hi >= 1 else 0])
        return r.randint(lo, hi)

    def scalar_fields(self, nrand=None, nnon=None, allow_enum=True, prefix="f"):
        """random + non-random scalar fields within the bit budget"""
        r = self.rng
        nrand = nrand if nrand is not None else r.randint(2, 4)
        nnon = nnon if nnon is not None else r.choice([0, 0, 1, 1, 2])
        out = []
        bits = 0
        for i in range(nrand):
            if allow_enum and r.random() < 0.15:
                en = self.mk_enum() if (not self.enums or r.random() < 0.5) else r.choice(sorted(self.enums))
                fd = {"n": "%s%d" % (prefix, len(out)), "k": "enum", "e": en, "r": True}
                b = R.leaf_bits({"enums": self.enums}, ("enum", en))
            else:
                fd = self.int_field("%s%d" % (prefix, len(out)), True)
                b = fd["w"]
            if bits + b > self.max_bits:
                if fd["k"] == "int" and self.max_bits - bits >= 1:
                    fd["w"] = max(1, self.max_bits - bits)
                    if "i" in fd:
                        fd["i"] = R.wrap(fd["i"], fd["w"], fd["s"])
                    b = fd["w"]
                else:
                    break
            bits += b
            out.append(fd)
        for i in range(nnon):
            if allow_enum and self.enums and r.random() < 0.15:
                en = r.choice(sorted(self.enums))
                # (no initial value: the library ignores i= of enum fields; histories assign one instead)
                fd = {"n": "k%d" % i, "k": "enum", "e": en, "r": False}
            else:
                fd = self.int_field("k%d" % i, False)
            out.append(fd)
        r.shuffle(out)
        return out

    # ------------------------------------------------------------- expressions
    def leaves(self, scope, signed=None, kinds=("int",)):
        """scope: list of (path, decl) usable as operands"""
        out = []
        for p, fd in scope:
            if fd["k"] == "int" and "int" in kinds and (signed is None or fd["s"] == signed):
                out.append((p, fd))
            elif fd["k"] == "enum" and "enum" in kinds:
                out.append((p, fd))
        return out

    def lit(self, signed, near=None, w=None):
        r = self.rng
        w = w or 4
        if signed:
            v = near if near is not None else r.randint(-(1 << (w - 1)) - 1, (1 << (w - 1)))
            if near is not None:
                v = near + r.choice([-1, 0, 0, 1])
            if r.random() < 0.7:
                return ["c", v]
            sw = r.choice([w, w + 1, 8])
            return ["s", R.wrap(v, sw, True), sw]
        v = near if near is not None else r.randint(0, (1 << w))
        if near is not None:
            v = max(0, near + r.choice([-1, 0, 0, 1]))
        if r.random() < 0.6:
            return ["c", v]
        sw = r.choice([w, w + 1, 8])
        return ["u", v & ((1 << sw) - 1), sw]

    def bv(self, scope, signed, depth, wit=None):
        """bit-vector expression whose field leaves all have the given signedness"""
        r = self.rng
        ls = self.leaves(scope, signed)
        if not ls:
            return None
        if depth <= 0 or r.random() < 0.45:
            p, fd = r.choice(ls)
            return ["f", list(p)]
        c = r.random()
        if c < 0.62:
            op = r.choice(["+", "-", "+", "-", "*", "&", "|", "^"])
            a = self.bv(scope, signed, depth - 1)
            if r.random() < 0.5:
                b = self.lit(signed, w=self._w(a, scope))
            else:
                b = self.bv(scope, signed, depth - 1)
            return ["b", op, a, b]
        if c < 0.72 and not signed:
            p, fd = r.choice(ls)
            d = r.randint(1, max(1, (1 << fd["w"]) - 1))
            dw = r.choice([fd["w"], 8, 32])
            dl = ["c", d] if dw == 32 else ["u", d & ((1 << dw) - 1) or 1, dw]
            return ["b", r.choice(["/", "%"]), ["f", list(p)], dl]
        if c < 0.82 and not signed:
            p, fd = r.choice(ls)
            aw = r.randint(1, fd["w"])
            return ["b", r.choice(["<<", ">>"]), ["f", list(p)], ["u", r.randint(0, (1 << aw) - 1), aw]]
        if c < 0.92:
            p, fd = r.choice(self.leaves(scope, None))
            if fd["w"] >= 2 and not signed:
                hi = r.randint(0, fd["w"] - 1)
                lo = r.randint(0, hi)
                # x[i] on an indexed element reference means array subscript, not bit-select: keep the slice form there
                indexed = any(isinstance(x, int) for x in p)
                return ["ps", list(p), hi, lo] if (hi != lo or indexed or r.random() < 0.5) else ["bs", list(p), hi]
        p, fd = r.choice(ls)
        return ["f", list(p)]

    def _w(self, e, scope):
        if e and e[0] == "f":
            for p, fd in scope:
                if list(p) == e[1] and fd["k"] == "int":
                    return fd["w"]
        return 4

    def cmp(self, scope, depth):
        r = self.rng
        ints = self.leaves(scope, None)
        if not ints:
            return None
        c = r.random()
        op = r.choice(["==", "!=", "<", "<=", ">", ">=", "<", ">", "=="])
        if c < 0.12:
            # flat mixed-sign comparison: field vs field
            su = self.leaves(scope, False)
            ss = self.leaves(scope, True)
            if su and ss:
                a = ["f", list(r.choice(su)[0])]
                b = ["f", list(r.choice(ss)[0])]
                if r.random() < 0.5:
                    a, b = b, a
                return ["b", op, a, b]
        signed = r.choice([fd["s"] for _, fd in ints])
        a = self.bv(scope, signed, depth)
        if r.random() < 0.5:
            b = self.lit(signed, w=self._w(a, scope))
        else:
            b = self.bv(scope, signed, depth)
        if a is None or b is None:
            return None
        if r.random() < 0.06 and b[0] == "f" and a[0] != "c":
            # bare int on the left of a comparison (reflected operator)
            return ["b", op, ["c", r.randint(0, 7) if not signed else r.randint(-4, 4)], b]
        return ["b", op, a, b]

    def inset(self, scope, depth):
        r = self.rng
        ints = self.leaves(scope, None)
        enums = self.leaves(scope, None, kinds=("enum",))
        if enums and r.random() < 0.25:
            p, fd = r.choice(enums)
            ms = [m for m, _ in self.enums[fd["e"]]]
            items = [["en", fd["e"], m] for m in r.sample(ms, r.randint(1, max(1, len(ms) - 1)))]
            return [r.choice(["in", "in", "nin"]), ["f", list(p)], items]
        if not ints:
            return None
        p, fd = r.choice(ints)
        signed = fd["s"]
        lhs = ["f", list(p)] if r.random() < 0.8 else (self.bv(scope, signed, 1) or ["f", list(p)])
        items = []
        w = fd["w"]
        lo_t, hi_t = (-(1 << (w - 1)), (1 << (w - 1)) - 1) if signed else (0, (1 << w) - 1)
        for _ in range(r.randint(1, 4)):
            c = r.random()
            if c < 0.5:
                items.append(["c", r.randint(lo_t - 1, hi_t + 1)])
            elif c < 0.85:
                a = r.randint(lo_t, hi_t)
                b = r.randint(lo_t, hi_t)
                if a > b and r.random() < 0.9:
                    a, b = b, a
                items.append(["rng", ["c", a], ["c", b]])
            else:
                same = self.leaves(scope, signed)
                q, qd = r.choice(same)
                if r.random() < 0.5:
                    items.append(["f", list(q)])
                else:
                    items.append(["rng", ["f", list(q)], ["c", hi_t]])
        return [r.choice(["in", "in", "in", "nin"]), lhs, items]

    def enum_cmp(self, scope):
        r = self.rng
        enums = self.leaves(scope, None, kinds=("enum",))
        if not enums:
            return None
        p, fd = r.choice(enums)
        m = r.choice(self.enums[fd["e"]])[0]
        others = [(q, qd) for q, qd in enums if qd["e"] == fd["e"] and q != p]
        if others and r.random() < 0.4:
            return ["b", r.choice(["==", "!="]), ["f", list(p)], ["f", list(r.choice(others)[0])]]
        return ["b", r.choice(["==", "!=", "!="]), ["f", list(p)], ["en", fd["e"], m]]

    def boolean(self, scope, depth, bdepth=2):
        r = self.rng
        c = r.random()
        e = None
        if bdepth > 0 and c < 0.22:
            a = self.boolean(scope, depth, bdepth - 1)
            b = self.boolean(scope, depth, bdepth - 1)
            if a and b:
                e = ["b", r.choice(["&", "|", "|", "^"]), a, b]
        elif bdepth > 0 and c < 0.30:
            a = self.boolean(scope, depth, bdepth - 1)
            if a:
                e = ["n", a]
        elif c < 0.50:
            e = self.inset(scope, depth)
        elif c < 0.56:
            e = self.enum_cmp(scope)
        if e is None:
            e = self.cmp(scope, depth)
        return e

    # -------------------------------------------------------------- statements
    def stmt(self, scope, depth=2, sdepth=1, allow=("e", "if", "imp", "uniq")):
        r = self.rng
        c = r.random()
        if "if" in allow and sdepth > 0 and c < 0.16:
            n = r.choice([1, 1, 2, 3])
            arms = []
            for _ in range(n):
                cond = self.boolean(scope, 1, 1)
                body = [self.stmt(scope, depth, sdepth - 1, allow) for _ in range(r.randint(1, 2))]
                if cond is not None:
                    arms.append([cond, [b for b in body if b]])
            els = None
            if r.random() < 0.5:
                els = [b for b in [self.stmt(scope, depth, sdepth - 1, allow)] if b]
            if arms:
                return ["if", arms, els]
        if "imp" in allow and sdepth > 0 and c < 0.26:
            cond = self.boolean(scope, 1, 1)
            body = [self.stmt(scope, depth, sdepth - 1, allow) for _ in range(r.randint(1, 2))]
            if cond is not None:
                return ["imp", cond, [b for b in body if b]]
        if "uniq" in allow and c < 0.33:
            ints = self.leaves(scope, None)
            if len(ints) >= 2:
                signed = r.choice([fd["s"] for _, fd in ints])
                same = self.leaves(scope, signed)
                if len(same) >= 2:
                    k = r.randint(2, min(4, len(same)))
                    return ["uniq", [["f", list(p)] for p, _ in r.sample(same, k)]]
        e = self.boolean(scope, depth)
        return ["e", e] if e else None

    def block(self, scope, name, nst=None, **kw):
        r = self.rng
        nst = nst if nst is not None else r.randint(1, 3)
        st = [s for s in (self.stmt(scope, **kw) for _ in range(nst)) if s]
        return {"n": name, "st": st}


def scope_of(prog, cname, prefix=()):
    """(path, decl) of every scalar reachable from an object of class cname"""
    out = []
    for fd in R.all_fields(prog, cname):
        p = tuple(prefix) + (fd["n"],)
        if fd["k"] in ("int", "enum"):
            out.append((p, fd))
        elif fd["k"] == "obj":
            out.extend(scope_of(prog, fd["c"], p))
        elif fd["k"] == "list" and fd["ek"] == "int":
            for i in range(fd.get("sz", len(fd.get("init", [])))):
                out.append((p + (i,), {"n": fd["n"], "k": "int", "w": fd["w"], "s": fd["s"], "r": fd["r"]}))
        elif fd["k"] == "list" and fd["ek"] == "obj":
            for i in range(fd.get("sz", 0)):
                out.extend(scope_of(prog, fd["c"], p + (i,)))
    return out


def scalar_program(rng, max_bits=10, nblocks=None, opts=None):
    g = G(rng, max_bits, opts)
    fields = g.scalar_fields()
    prog = {"enums": g.enums, "classes": {"C0": {"base": None, "fields": fields, "blocks": []}}, "top": "C0"}
    scope = scope_of(prog, "C0")
    nb = nblocks if nblocks is not None else rng.choice([1, 1, 2, 2, 3])
    for i in range(nb):
        prog["classes"]["C0"]["blocks"].append(g.block(scope, "c%d" % i))
    if rng.random() < (opts or {}).get("plant_p", 0.75):
        plant(prog, g)
    return prog, g


def validate(prog, hist_calls=1):
    """Raises ref.Corner if the reference refuses the program on its initial state."""
    st = R.new_state(prog, prog["top"])
    call = R.Call(prog, st)
    env = {}
    for p, t in call.rand_leaves:
        if t[0] == "size":
            env[p] = t[1]                      # evaluate with the largest admissible size: every element is typed
        elif isinstance(p[-1], int) and p[-1] >= len(R.get_at(st, p[:-1])):
            env[p] = list(R.leaf_domain(prog, t))[0]
        else:
            env[p] = R.get_at(st, p)
    call.holds(env)   # evaluates every statement once -> typing corners surface (data-dependent ones may not)
    return call


def history(g, prog, ncalls=4, kinds=("randomize", "with", "free"), edits=True, inst="o0", inline_allow=("e", "if", "imp"),
            free_unpassed=False):
    """calls on one instance with fresh non-random values in between"""
    r = g.rng
    top = prog["top"]
    scope = scope_of(prog, top)
    nonrand = [(p, fd) for p, fd in scope if not fd["r"] and len(p) == 1]
    randf = [(p, fd) for p, fd in scope if fd["r"] and len(p) == 1]
    hist = []
    for ci in range(ncalls):
        if edits and nonrand and (ci > 0 or r.random() < 0.5):
            for p, fd in nonrand:
                if r.random() < 0.6:
                    if fd["k"] == "enum":
                        v = r.choice(g.enums[fd["e"]])[0]
                    else:
                        v = g.rand_val(fd["w"], fd["s"])
                    hist.append({"op": "set", "o": inst, "path": list(p), "v": v})
        k = r.choice(kinds)
        if k == "randomize":
            hist.append({"op": "randomize", "o": inst})
        elif k == "with":
            st = [s for s in (g.stmt(scope, depth=1, sdepth=1, allow=inline_allow) for _ in range(r.randint(1, 2))) if s]
            hist.append({"op": "with", "o": inst, "inline": st})
        else:
            cand = [list(p) for p, fd in scope if len(p) == 1]
            if not cand:
                hist.append({"op": "randomize", "o": inst})
                continue
            fs = r.sample(cand, r.randint(1, min(3, len(cand))))
            if r.random() < 0.5:
                hist.append({"op": "free", "o": inst, "fields": fs, "seed": r.randint(0, 999)})
            else:
                # inline constraints of a free-standing call only mention the passed fields and
                # fields that are declared non-random (a random-declared field that is not passed
                # is exercised by the C03 generator only)
                sub = scope if free_unpassed else [(p, fd) for p, fd in scope if list(p) in fs or not fd["r"]]
                st = [s for s in (g.stmt(sub, depth=1, sdepth=0, allow=("e",)) for _ in range(1)) if s]
                hist.append({"op": "free", "o": inst, "fields": fs, "inline": st, "seed": r.randint(0, 999)})
    return hist


# ---------------------------------------------------------------------------
# object trees
# ---------------------------------------------------------------------------

NAME_POOL = ["zq", "ab", "mm", "x", "Yk", "b0", "_p", "ca", "w", "Bz", "dd", "e9", "aa", "zz", "k_", "q"]


def tree_program(rng, max_bits=10, with_obj_list=True, with_collections=False, nleaf_classes=None, deep=False):
    """Top object with own scalars, several sub-objects (random and non-random,
    siblings of one class) and optionally a list of objects; attribute names are
    chosen so that dir() order differs from declaration order."""
    r = rng
    g = G(rng, max_bits)
    names = list(NAME_POOL)
    r.shuffle(names)
    prog = {"enums": g.enums, "classes": {}, "top": "Top"}
    nleaf = nleaf_classes or r.choice([1, 1, 2])
    budget = max_bits
    for li in range(nleaf):
        cname = "L%d" % li
        fs = []
        for j in range(r.randint(1, 2)):
            fs.append(g.int_field("%s%d" % (r.choice(["v", "a", "z", "m"]), j), True, w=r.choice([1, 2, 2, 3]), signed=r.random() < 0.3))
        if r.random() < 0.4:
            fs.append(g.int_field("kk", False, w=r.choice([2, 3, 4])))
        prog["classes"][cname] = {"base": None, "fields": fs, "blocks": []}
        sc = scope_of(prog, cname)
        nb = r.choice([0, 1, 1, 2])
        for bi in range(nb):
            prog["classes"][cname]["blocks"].append(g.block(sc, "lc%d" % bi, nst=r.randint(1, 2), depth=1, sdepth=1))
    top_fields = []
    used_bits = 0

    def leafbits(cname):
        n = 0
        for fd in prog["classes"][cname]["fields"]:
            if fd["k"] == "int" and fd["r"]:
                n += fd["w"]
            elif fd["k"] == "obj" and fd["r"]:
                n += leafbits(fd["c"])
        return n
    sub_classes = ["L%d" % i for i in range(nleaf)]
    if deep:
        # a middle level: object holding leaf objects (several siblings of one class) and relating them
        mf = [g.int_field("mv", True, w=r.choice([1, 2]), signed=False)]
        for j in range(r.randint(1, 2)):
            mf.append({"n": r.choice(["sa", "sb", "zz", "a_"]) + str(j), "k": "obj", "c": "L%d" % r.randrange(nleaf),
                       "r": r.random() < 0.75})
        prog["classes"]["M0"] = {"base": None, "fields": mf, "blocks": []}
        msc = scope_of(prog, "M0")
        for bi in range(r.randint(1, 2)):
            prog["classes"]["M0"]["blocks"].append(g.block(msc, "mc%d" % bi, nst=r.randint(1, 2), depth=1, sdepth=1))
        sub_classes.append("M0")
    for j in range(r.randint(1, 2)):
        fd = g.int_field(names.pop(), True, w=r.choice([1, 2, 3]), signed=r.random() < 0.3)
        top_fields.append(fd)
        used_bits += fd["w"]
    if r.random() < 0.6:
        top_fields.append(g.int_field(names.pop(), False, w=r.choice([2, 3, 4])))
    nsub = r.randint(2, 3)
    for j in range(nsub):
        c = r.choice(sub_classes)
        isrand = r.random() < 0.65
        if isrand and used_bits + leafbits(c) > budget:
            isrand = False
        if isrand:
            used_bits += leafbits(c)
        top_fields.append({"n": names.pop(), "k": "obj", "c": c, "r": isrand})
    if with_obj_list and r.random() < 0.5:
        c = "L%d" % r.randrange(nleaf)
        sz = r.choice([1, 2, 2])
        if used_bits + sz * leafbits(c) <= budget:
            used_bits += sz * leafbits(c)
            top_fields.append({"n": names.pop(), "k": "list", "ek": "obj", "c": c, "r": True, "sz": sz})
    if with_collections:
        if r.random() < 0.7:
            items = []
            for _ in range(r.randint(1, 3)):
                a = r.randint(0, 7)
                items.append([a, a + r.randint(0, 3)] if r.random() < 0.4 else a)
            top_fields.append({"n": "rl0", "k": "rangelist", "items": items})
        if r.random() < 0.7:
            top_fields.append({"n": "nl0", "k": "list", "ek": "int", "w": 4, "s": False, "r": False,
                               "init": [r.randint(0, 9) for _ in range(r.randint(1, 3))]})
    r.shuffle(top_fields)
    prog["classes"]["Top"] = {"base": None, "fields": top_fields, "blocks": []}
    scope = [(p, fd) for p, fd in scope_of(prog, "Top") if p[0] != "nl0"]   # elements of the mutable list are never named by index
    nb = r.choice([1, 2, 2, 3])
    for bi in range(nb):
        blk = g.block(scope, "tc%d" % bi, nst=r.randint(1, 3), depth=1, sdepth=1)
        prog["classes"]["Top"]["blocks"].append(blk)
    if with_collections:
        unsigned_rand = [(p, fd) for p, fd in scope if fd["k"] == "int" and not fd["s"] and fd["r"] and len(p) == 1]
        extra = []
        for fd in top_fields:
            if fd["k"] == "rangelist" and unsigned_rand:
                p, _ = r.choice(unsigned_rand)
                extra.append(["e", [r.choice(["in", "in", "nin"]), ["f", list(p)], [["rl", fd["n"]]]]])
            if fd["k"] == "list" and fd.get("ek") == "int" and not fd["r"] and unsigned_rand:
                p, _ = r.choice(unsigned_rand)
                extra.append(["e", [r.choice(["in", "in", "nin"]), ["f", list(p)], [["lst", [fd["n"]]]]]])
        if extra:
            prog["classes"]["Top"]["blocks"].append({"n": "tcoll", "st": extra})
    if r.random() < 0.85:
        plant(prog, g)
    return prog, g


def tree_history(g, prog, nops=12, inst="o0", toggles=True, collections=True, free=True, sub_calls=True):
    r = g.rng
    scope = [(p, fd) for p, fd in scope_of(prog, "Top") if p[0] != "nl0"]
    hist = []
    mutable_lists = set(fd["n"] for fd in R.all_fields(prog, "Top") if fd["k"] == "list" and fd.get("ek") == "int" and not fd["r"])
    scal = [(p, fd) for p, fd in scope if p[0] not in mutable_lists]
    ncalls = 0
    top_fields = R.all_fields(prog, "Top")
    for i in range(nops):
        c = r.random()
        if c < 0.25:
            p, fd = r.choice(scal)
            # assigning any field (random or not): a later call must treat non-random ones as constants
            hist.append({"op": "set", "o": inst, "path": list(p), "v": g.rand_val(fd["w"], fd["s"])})
        elif c < 0.38 and toggles:
            rands = [(p, fd) for p, fd in scal if fd["r"] and not any(isinstance(x, int) for x in p)]
            nonr = [(p, fd) for p, fd in scal if not fd["r"] and fd["k"] == "int" and not any(isinstance(x, int) for x in p)]
            if nonr and r.random() < 0.25:
                # rand_mode written to a field that is not declared random: it stays a constant
                p, fd = r.choice(nonr)
                hist.append({"op": "rand_mode", "o": inst, "path": list(p), "v": r.random() < 0.7})
            elif rands:
                p, fd = r.choice(rands)
                hist.append({"op": "rand_mode", "o": inst, "path": list(p), "v": r.random() < 0.4})
        elif c < 0.50 and collections:
            coll = [fd for fd in top_fields if fd["k"] == "rangelist" or (fd["k"] == "list" and fd.get("ek") == "int" and not fd["r"])]
            if coll:
                fd = r.choice(coll)
                if fd["k"] == "rangelist":
                    k = r.choice(["rl_append", "rl_append", "rl_extend", "rl_clear"])
                    a = r.randint(0, 7)
                    item = [a, a + r.randint(0, 2)] if r.random() < 0.4 else a
                    if k == "rl_clear":
                        hist.append({"op": "rl_clear", "o": inst, "path": [fd["n"]]})
                        hist.append({"op": "rl_append", "o": inst, "path": [fd["n"]], "v": item})
                    elif k == "rl_append":
                        hist.append({"op": "rl_append", "o": inst, "path": [fd["n"]], "v": item})
                    else:
                        hist.append({"op": "rl_extend", "o": inst, "path": [fd["n"]], "v": [item, r.randint(0, 7)]})
                else:
                    k = r.choice(["l_append", "l_assign", "l_clear", "l_extend"])
                    if k == "l_append":
                        hist.append({"op": "l_append", "o": inst, "path": [fd["n"]], "v": r.randint(0, 9)})
                    elif k == "l_extend":
                        hist.append({"op": "l_extend", "o": inst, "path": [fd["n"]], "v": [r.randint(0, 9), r.randint(0, 9)]})
                    elif k == "l_assign":
                        hist.append({"op": "l_assign", "o": inst, "path": [fd["n"]], "v": [r.randint(0, 9) for _ in range(r.randint(1, 3))]})
                    else:
                        hist.append({"op": "l_clear", "o": inst, "path": [fd["n"]]})
                        hist.append({"op": "l_append", "o": inst, "path": [fd["n"]], "v": r.randint(0, 9)})
        else:
            ncalls += 1
            k = r.random()
            if k < 0.5:
                hist.append({"op": "randomize", "o": inst})
            elif k < 0.75:
                stl = [s for s in (g.stmt(scope, depth=1, sdepth=1, allow=("e", "imp")) for _ in range(r.randint(1, 2))) if s]
                hist.append({"op": "with", "o": inst, "inline": stl})
            elif k < 0.9 and free:
                cand = [list(p) for p, fd in scope if len(p) == 1]
                if cand:
                    hist.append({"op": "free", "o": inst, "fields": r.sample(cand, r.randint(1, min(2, len(cand)))),
                                 "seed": r.randint(0, 999)})
            elif sub_calls:
                subs = [fd for fd in top_fields if fd["k"] == "obj"]
                if subs:
                    hist.append({"op": "randomize", "o": inst, "target": [r.choice(subs)["n"]]})
    if ncalls == 0:
        hist.append({"op": "randomize", "o": inst})
    return hist


def plant(prog, g, tries=5, drop_p=0.8):
    """Planted-witness pass: draw an assignment of the random leaves of a fresh top
    object, then regenerate (or drop) class statements that the reference evaluates
    to false on it, so that most generated programs are satisfiable on their initial
    state.  Some unsatisfiable ones are kept on purpose."""
    r = g.rng
    top = prog["top"]
    try:
        st = R.new_state(prog, top)
        call = R.Call(prog, st)
    except Exception:
        return prog
    env = {}
    for p, t in call.rand_leaves:
        dom = list(R.leaf_domain(prog, t))
        env[p] = r.choice(dom)
    by_class = {}
    for path, ost, used in call.objs:
        if used:
            by_class.setdefault(ost["cls"], []).append(path)
    for cname, paths in by_class.items():
        for c in R.class_chain(prog, cname):
            sc = scope_of(prog, c)     # a block may only name fields of the class that defines it
            if cname == top:
                sc = [(p, fd) for p, fd in sc if p[0] != "nl0"]
            for blk in prog["classes"][c]["blocks"]:
                if blk.get("dyn") or blk["n"] == "tcoll":
                    continue
                new = []
                for s in blk["st"]:
                    cur = s
                    ok = False
                    for _ in range(tries):
                        try:
                            ok = all(R.stmt_holds(cur, R.Ctx(prog, st, path, env)) for path in paths)
                        except R.Corner:
                            ok = False
                        except Exception:
                            ok = False
                        if ok or cur[0] in ("soft", "so", "dist"):
                            ok = True
                            break
                        cur = g.stmt(sc, depth=1, sdepth=1) or cur
                    if ok or r.random() > drop_p:
                        new.append(cur)
                blk["st"] = new
    return prog


# ---------------------------------------------------------------------------
# class hierarchies with overridden blocks (C07)
# ---------------------------------------------------------------------------

def hierarchy_program(rng, max_bits=9):
    r = rng
    g = G(rng, max_bits)
    prog = {"enums": {}, "classes": {}, "top": "B0"}
    nf = r.randint(2, 3)
    fields = [g.int_field("f%d" % i, True, w=r.choice([2, 2, 3]), signed=r.random() < 0.25) for i in range(nf)]
    if r.random() < 0.5:
        fields.append(g.int_field("k0", False, w=3))
    prog["classes"]["B0"] = {"base": None, "fields": fields, "blocks": []}
    names = ["c0", "c1", "c2"][: r.randint(2, 3)]
    sc = scope_of(prog, "B0")
    for n in names:
        prog["classes"]["B0"]["blocks"].append(g.block(sc, n, nst=r.randint(1, 2), depth=1, sdepth=1))
    depth = r.choice([1, 2, 2, 3])
    prev = "B0"
    chain = ["B0"]
    for d in range(1, depth):
        cn = "D%d" % d
        extra = []
        if r.random() < 0.4:
            extra.append(g.int_field("g%d" % d, True, w=r.choice([1, 2]), signed=False))
        prog["classes"][cn] = {"base": prev, "fields": extra, "blocks": []}
        sc = scope_of(prog, cn)
        over = [n for n in names if r.random() < 0.55]
        for n in over:
            prog["classes"][cn]["blocks"].append(g.block(sc, n, nst=r.randint(1, 2), depth=1, sdepth=1))
        if r.random() < 0.5:
            # a block of its own; its name sorts before or after the inherited ones (blocks are elaborated in
            # dir() order, so the position of an inherited block differs between base and derived class)
            nn = "%s%d" % (r.choice(["a", "c"]), len(names) + d + 2)
            prog["classes"][cn]["blocks"].append(g.block(sc, nn, nst=1, depth=1, sdepth=0))
        prev = cn
        chain.append(cn)
    # a holder with a nested instance and a list of instances
    inner = r.choice(chain)
    lst = r.choice(chain)
    hf = [{"n": "own", "k": "int", "w": 2, "s": False, "r": True},
          {"n": "sub", "k": "obj", "c": inner, "r": True}]
    if r.random() < 0.7:
        hf.append({"n": "items", "k": "list", "ek": "obj", "c": lst, "r": True, "sz": 2})
    prog["classes"]["H"] = {"base": None, "fields": hf, "blocks": []}
    if r.random() < 0.6:
        sc = [(p, fd) for p, fd in scope_of(prog, "H")]
        prog["classes"]["H"]["blocks"].append(g.block(sc, "hc", nst=1, depth=1, sdepth=0))
    prog["top"] = r.choice(chain)
    prog["_chain"] = chain
    return prog, g


def hierarchy_history(g, prog, nops=14):
    r = g.rng
    chain = prog["_chain"]
    insts = {"o0": prog["top"]}
    hist = []
    ncalls = 0

    def block_names(cname):
        return [b["n"] for b in R.effective_blocks(prog, cname) if not b.get("dyn")]

    def targets(inst):
        """(path, class) of every object with blocks reachable from an instance"""
        cn = insts[inst]
        out = [([], cn)]
        if cn == "H":
            for fd in prog["classes"]["H"]["fields"]:
                if fd["k"] == "obj":
                    out.append(([fd["n"]], fd["c"]))
                elif fd["k"] == "list":
                    for i in range(fd["sz"]):
                        out.append(([fd["n"], i], fd["c"]))
        return out
    for i in range(nops):
        c = r.random()
        if c < 0.18 and len(insts) < 5:
            name = "o%d" % len(insts)
            cn = r.choice(chain + ["H"])
            insts[name] = cn
            hist.append({"op": "new", "name": name, "cls": cn})
        elif c < 0.55:
            inst = r.choice(sorted(insts))
            path, cn = r.choice(targets(inst))
            bn = block_names(cn)
            if bn:
                hist.append({"op": "cmode", "o": inst, "path": path, "blk": r.choice(bn), "v": r.random() < 0.4})
        else:
            inst = r.choice(sorted(insts))
            ncalls += 1
            if r.random() < 0.75:
                hist.append({"op": "randomize", "o": inst})
            else:
                sc = scope_of(prog, insts[inst])
                st = [s for s in (g.stmt(sc, depth=1, sdepth=0, allow=("e",)) for _ in range(1)) if s]
                hist.append({"op": "with", "o": inst, "inline": st})
    for inst in sorted(insts):
        hist.append({"op": "randomize", "o": inst})
    return hist


# ---------------------------------------------------------------------------
# inline / dynamic constraints (C06)
# ---------------------------------------------------------------------------

def dyn_program(rng, max_bits=9):
    r = rng
    g = G(rng, max_bits)
    prog = {"enums": {}, "classes": {}, "top": "P"}
    nf = r.randint(2, 3)
    fields = [g.int_field("f%d" % i, True, w=r.choice([2, 3, 3]), signed=r.random() < 0.2) for i in range(nf)]
    if r.random() < 0.4:
        fields.append(g.int_field("k0", False, w=3))
    prog["classes"]["P"] = {"base": None, "fields": fields, "blocks": []}
    sc = scope_of(prog, "P")
    for i in range(r.randint(0, 2)):
        prog["classes"]["P"]["blocks"].append(g.block(sc, "c%d" % i, nst=1, depth=1, sdepth=0))
    for i in range(r.randint(1, 3)):
        b = g.block(sc, "d%d" % i, nst=r.randint(1, 2), depth=1, sdepth=0, allow=("e",))
        b["dyn"] = True
        prog["classes"]["P"]["blocks"].append(b)
    if r.random() < 0.45:
        # a holder with a list of P objects, to reference dynamic constraints through list elements
        prog["classes"]["Q"] = {"base": None, "fields": [
            {"n": "own", "k": "int", "w": 2, "s": False, "r": True},
            {"n": "items", "k": "list", "ek": "obj", "c": "P", "r": True, "sz": 2}], "blocks": []}
        prog["_has_q"] = True
        if r.random() < 0.6:
            # a reference that outlives a call: the holder refers to the dynamic block of the element selected by a
            # non-random index field (class-level statement, or a dynamic block of its own that calls reference);
            # the history moves the index between the calls
            dn = [b["n"] for b in prog["classes"]["P"]["blocks"] if b.get("dyn")]
            prog["classes"]["Q"]["fields"].insert(1, {"n": "sel", "k": "int", "w": 1, "s": False, "r": False, "i": r.randint(0, 1)})
            ref = ["dyni", ["items"], ["f", ["sel"]], r.choice(dn)]
            form = r.choice(["class", "dyn", "dyn_not", "both"])
            if form in ("class", "both"):
                prog["classes"]["Q"]["blocks"].append({"n": "cq", "st": [["e", ref]]})
            if form in ("dyn", "both"):
                prog["classes"]["Q"]["blocks"].append({"n": "dq", "dyn": True, "st": [["e", ["dyni", ["items"], ["f", ["sel"]], r.choice(dn)]]]})
            if form == "dyn_not":
                prog["classes"]["Q"]["blocks"].append({"n": "dq", "dyn": True, "st": [["e", ["n", ["dyni", ["items"], ["f", ["sel"]], r.choice(dn)]]]]})
            prog["_q_sel"] = True
    plant(prog, g)
    return prog, g


def dyn_history(g, prog, nops=12):
    r = g.rng
    dyns = [b["n"] for b in prog["classes"]["P"]["blocks"] if b.get("dyn")]
    insts = {"o0": "P"}
    hist = []
    scP = scope_of(prog, "P")

    def dyn_term(path):
        return ["dyn", list(path), r.choice(dyns)]

    def inline_for(cls):
        st = []
        if cls == "P":
            base = []
            sc = scP
        else:
            base = ["items", r.randrange(2)]
            sc = scope_of(prog, "Q")
            qd = [b["n"] for b in prog["classes"]["Q"]["blocks"] if b.get("dyn")]
            if qd and r.random() < 0.6:
                # the holder's own dynamic block (it refers to an element's block through the index field)
                c = r.random()
                t = ["dyn", [], qd[0]]
                if c < 0.5:
                    st.append(["e", t])
                elif c < 0.75:
                    e = g.boolean(sc, 1, 0)
                    st.append(["e", ["b", "&", t, e]] if e else ["e", t])
                else:
                    st.append(["e", ["b", "|", t, ["dyn", list(base), r.choice(dyns)]]])
        # one to three statements with dynamic references; the same block may be referenced repeatedly
        for _k in range(r.choice([1, 1, 2, 2, 3])):
            c = r.random()
            if c < 0.30:
                st.append(["e", dyn_term(base)])
            elif c < 0.50 and len(dyns) >= 2:
                a, b = r.sample(dyns, 2)
                st.append(["e", ["b", "|", ["dyn", list(base), a], ["dyn", list(base), b]]])
            elif c < 0.65:
                e = g.boolean(sc, 1, 0)
                if e:
                    st.append(["e", ["b", r.choice(["&", "|"]), dyn_term(base), e]])
            elif c < 0.80:
                st.append(["e", ["n", dyn_term(base)]])
        if not st or r.random() < 0.5:
            s = g.stmt(sc, depth=1, sdepth=1, allow=("e", "imp"))
            if s:
                st.append(s)
        r.shuffle(st)
        return st
    population = r.random() < 0.5    # half of the cases keep a single instance alive
    if prog.get("_q_sel"):
        # the holder with the index field is there from the start and is used most of the time
        insts["o1"] = "Q"
        hist.append({"op": "new", "name": "o1", "cls": "Q"})
    for i in range(nops):
        c = r.random()
        if population and c < 0.2 and len(insts) < 5:
            name = "o%d" % len(insts)
            cn = "Q" if (prog.get("_has_q") and r.random() < 0.4) else "P"
            insts[name] = cn
            hist.append({"op": "new", "name": name, "cls": cn})
        else:
            inst = r.choice(sorted(insts))
            if prog.get("_q_sel") and r.random() < 0.6:
                inst = "o1"
            if insts[inst] == "Q" and prog.get("_q_sel") and r.random() < 0.6:
                hist.append({"op": "set", "o": inst, "path": ["sel"], "v": r.randint(0, 1)})
            if r.random() < 0.4:
                hist.append({"op": "randomize", "o": inst})
            else:
                hist.append({"op": "with", "o": inst, "inline": inline_for(insts[inst])})
    hist.append({"op": "randomize", "o": "o0"})
    return hist


# ---------------------------------------------------------------------------
# soft constraints (C05)
# ---------------------------------------------------------------------------

def soft_expr(g, scope):
    """soft targets: mostly field == literal / field relop literal / small in-sets, so that conflicts are frequent"""
    r = g.rng
    ints = g.leaves(scope, None)
    rand_ints = [(p, fd) for p, fd in ints if fd["r"]] or ints
    p, fd = r.choice(rand_ints)
    w, sg = fd["w"], fd["s"]
    lo, hi = (-(1 << (w - 1)), (1 << (w - 1)) - 1) if sg else (0, (1 << w) - 1)
    c = r.random()
    if c < 0.45:
        return ["b", "==", ["f", list(p)], ["c", r.randint(lo, hi)]]
    if c < 0.65:
        return ["b", r.choice(["<", ">", "<=", ">="]), ["f", list(p)], ["c", r.randint(lo, hi)]]
    if c < 0.80:
        vals = sorted(set(r.randint(lo, hi) for _ in range(r.randint(1, 3))))
        return ["in", ["f", list(p)], [["c", v] for v in vals]]
    if c < 0.92 and len(rand_ints) >= 2:
        same = [(q, qd) for q, qd in rand_ints if qd["s"] == sg and q != p]
        if same:
            q, qd = r.choice(same)
            return ["b", r.choice(["==", "<", "!="]), ["f", list(p)], ["f", list(q)]]
    return g.cmp(scope, 1) or ["b", "==", ["f", list(p)], ["c", r.randint(lo, hi)]]


def soft_stmt(g, scope, nest=1):
    r = g.rng
    c = r.random()
    if nest > 0 and c < 0.2:
        cond = g.boolean(scope, 1, 0)
        arms = [[cond, [soft_stmt(g, scope, nest - 1) for _ in range(r.randint(1, 2))]]]
        if r.random() < 0.4:
            arms.append([g.boolean(scope, 1, 0), [soft_stmt(g, scope, nest - 1)]])
        els = [soft_stmt(g, scope, nest - 1)] if r.random() < 0.5 else None
        return ["if", arms, els]
    if nest > 0 and c < 0.32:
        return ["imp", g.boolean(scope, 1, 0), [soft_stmt(g, scope, nest - 1) for _ in range(r.randint(1, 2))]]
    return ["soft", soft_expr(g, scope)]


def soft_program(rng, max_bits=9):
    r = rng
    g = G(rng, max_bits)
    fields = g.scalar_fields(nrand=r.randint(1, 3), nnon=r.choice([0, 1, 1]), allow_enum=False)
    prog = {"enums": g.enums, "classes": {"C0": {"base": None, "fields": fields, "blocks": []}}, "top": "C0"}
    scope = scope_of(prog, "C0")
    if not g.leaves(scope, None):
        return None, g
    nb = r.choice([1, 1, 2, 3])
    for bi in range(nb):
        st = []
        for _ in range(r.choice([0, 0, 1, 2])):
            s = g.stmt(scope, depth=1, sdepth=1, allow=("e", "imp", "if"))
            if s:
                st.append(s)
        for _ in range(r.randint(1, 4) if nb == 1 else r.randint(0, 3)):
            st.append(soft_stmt(g, scope))
        r.shuffle(st)
        prog["classes"]["C0"]["blocks"].append({"n": "c%d" % bi, "st": st})
    plant(prog, g)
    return prog, g


def soft_history(g, prog, ncalls=5):
    r = g.rng
    scope = scope_of(prog, "C0")
    nonrand = [(p, fd) for p, fd in scope if not fd["r"]]
    hist = []
    for ci in range(ncalls):
        for p, fd in nonrand:
            if r.random() < 0.5:
                hist.append({"op": "set", "o": "o0", "path": list(p), "v": g.rand_val(fd["w"], fd["s"])})
        if r.random() < 0.45:
            hist.append({"op": "randomize", "o": "o0"})
        else:
            st = []
            for _ in range(r.choice([0, 0, 1])):
                s = g.stmt(scope, depth=1, sdepth=0, allow=("e",))
                if s:
                    st.append(s)
            for _ in range(r.randint(1, 3)):
                st.append(soft_stmt(g, scope))
            r.shuffle(st)
            hist.append({"op": "with", "o": "o0", "inline": st})
    return hist


# ---------------------------------------------------------------------------
# lists (C04)
# ---------------------------------------------------------------------------

def list_program(rng, max_points=1 << 12, dyn_fe=False):
    """dyn_fe: sometimes adds a dynamic block whose body is a foreach over the list (referenced inline by the history)"""
    r = rng
    g = G(rng, 12)
    prog = {"enums": {}, "classes": {}, "top": "T"}
    fields = []
    a = g.int_field("a", True, w=r.choice([2, 3]), signed=False)
    fields.append(a)
    if r.random() < 0.5:
        fields.append(g.int_field("k", False, w=3, signed=False))
    ew = r.choice([2, 2, 3])
    esg = r.random() < 0.25
    kind = r.choice(["fixed", "fixed", "randsz", "randsz", "nonrand"])
    L = {"n": "l", "k": "list", "ek": "int", "w": ew, "s": esg}
    if kind == "fixed":
        L.update(r=True, rsz=False, sz=r.choice([0, 1, 2, 3, 3]))
    elif kind == "randsz":
        L.update(r=True, rsz=True, sz=0, szmax=r.choice([2, 3]))
    else:
        n = r.choice([1, 2, 3])
        L.update(r=False, rsz=False, init=[g.rand_val(ew, esg) for _ in range(n)])
    fields.append(L)
    second = None
    if kind == "fixed" and L["sz"] >= 1 and r.random() < 0.3:
        second = {"n": "m", "k": "list", "ek": "int", "w": ew, "s": esg, "r": True, "rsz": False, "sz": L["sz"]}
        fields.append(second)
    objlist = None
    if r.random() < 0.35 and kind != "randsz":
        prog["classes"]["E"] = {"base": None, "fields": [
            {"n": "x", "k": "int", "w": 2, "s": False, "r": True},
            {"n": "y", "k": "int", "w": 2, "s": False, "r": True}], "blocks": []}
        if r.random() < 0.5:
            prog["classes"]["E"]["blocks"].append({"n": "ec", "st": [["e", ["b", r.choice(["<", "<=", "!="]), ["f", ["x"]], ["f", ["y"]]]]]})
        objlist = {"n": "ol", "k": "list", "ek": "obj", "c": "E", "r": True, "sz": r.choice([1, 2])}
        if r.random() < 0.45:
            # random-size list of objects, populated by the user: its size ranges over 0..number of objects
            objlist.update(rsz=True, sz=2, szmax=2)
        fields.append(objlist)
    r.shuffle(fields)
    prog["classes"]["T"] = {"base": None, "fields": fields, "blocks": []}
    lo, hi = (-(1 << (ew - 1)), (1 << (ew - 1)) - 1) if esg else (0, (1 << ew) - 1)
    st = []
    if kind == "randsz":
        m = L["szmax"]
        c = r.random()
        if c < 0.4:
            vals = sorted(set(r.randint(0, m) for _ in range(r.randint(1, 3))))
            st.append(["e", ["in", ["sz", ["l"]], [["c", v] for v in vals]]])
        elif c < 0.7:
            st.append(["e", ["b", "<=", ["sz", ["l"]], ["c", m]]])
            if r.random() < 0.5:
                st.append(["e", ["b", ">", ["sz", ["l"]], ["c", 0]]])
        else:
            st.append(["e", ["b", "<=", ["sz", ["l"]], ["c", m]]])
            st.append(["e", ["b", r.choice(["==", "<=", ">="]), ["sz", ["l"]], ["f", ["a"]]]])
    lit = lambda: ["c", r.randint(lo, hi + 1)]
    for _ in range(r.randint(1, 3)):
        c = r.random()
        if c < 0.22:
            body = [["e", ["b", r.choice(["<", "<=", "!=", ">", "=="]), ["it"], lit()]]]
            if r.random() < 0.3:
                body.append(["e", ["b", "!=", ["it"], ["f", ["a"]]]] if not esg else ["e", ["b", "!=", ["it"], lit()]])
            st.append(["fe", ["l"], "it", body])
        elif c < 0.36:
            # implication / if-else directly inside the foreach body, guarded by a scalar (random or not)
            guard_f = "k" if any(fd["n"] == "k" for fd in fields) and r.random() < 0.6 else "a"
            gw = [fd for fd in fields if fd["n"] == guard_f][0]["w"]
            cond = ["b", r.choice(["==", "!=", "<", ">"]), ["f", [guard_f]], ["c", r.randint(0, (1 << gw) - 1)]]
            inner = ["e", ["b", r.choice(["<", "<=", "!=", ">", "=="]), ["it"], lit()]]
            if r.random() < 0.6:
                st.append(["fe", ["l"], "it", [["imp", cond, [inner]]]])
            else:
                st.append(["fe", ["l"], "it", [["if", [[cond, [inner]]], [["e", ["b", r.choice(["!=", ">="]), ["it"], lit()]]] if r.random() < 0.5 else None]]])
        elif c < 0.42:
            # element against its index (or index arithmetic that goes negative), also for signed elements
            ix = ["idx"] if r.random() < 0.6 else ["b", "-", ["idx"], ["c", r.randint(1, 2)]]
            st.append(["fe", ["l"], "idx", [["e", ["b", r.choice(["==", "!=", ">=", "<", "<=", ">"]), ["el", ["l"], ["idx"]], ix]]]])
        elif c < 0.58:
            op = r.choice([">", ">=", "!=", "<"])
            st.append(["fe", ["l"], "both", [["if", [[["b", ">", ["idx"], ["c", 0]],
                                                      [["e", ["b", op, ["it"], ["el", ["l"], ["b", "-", ["idx"], ["c", 1]]]]]]]], None]]])
        elif c < 0.70 and kind != "nonrand":
            k = r.randint(0, max(1, hi) * 2)
            st.append(["e", ["b", r.choice(["==", "<", "<=", ">"]), ["sum", ["l"]], ["c", k]]])
        elif c < 0.80:
            st.append(["uniq", [["lst", ["l"]]] + ([["f", ["a"]]] if (not esg and r.random() < 0.4) else [])])
        elif c < 0.88 and not esg:
            st.append(["e", [r.choice(["in", "nin"]), ["f", ["a"]], [["lst", ["l"]]]]])
        elif c < 0.94 and second is not None:
            st.append(["uvec", [["l"], ["m"]]])
        elif second is not None:
            st.append(["fe", ["m"], "both", [["e", ["b", r.choice(["<=", "!="]), ["it"], ["el", ["l"], ["idx"]]]]]])
    if kind == "fixed" and L["sz"] >= 1 and r.random() < 0.2:
        # part-select of the element inside the foreach; a condition on a part-select of a non-random scalar
        hi = ew - 1
        lo_ = r.randint(0, hi)
        body = [["e", ["b", r.choice(["==", "!=", "<="]), ["psit", hi, lo_, ["l"]], ["c", r.randint(0, (1 << (hi - lo_ + 1)) - 1)]]]]
        if any(fd["n"] == "k" for fd in fields) and r.random() < 0.6:
            body = [["if", [[["b", "==", ["ps", ["k"], 1, 0], ["c", r.randint(0, 3)]], body]],
                     [["e", ["b", "!=", ["it"], lit()]]] if r.random() < 0.5 else None]]
        st.append(["fe", ["l"], "both", body])
    if second is not None and r.random() < 0.4:
        # unique over the elements of two lists at the same index
        st.append(["fe", ["l"], "idx", [["uniq", [["el", ["l"], ["idx"]], ["el", ["m"], ["idx"]]]]]])
    if kind == "fixed" and L["sz"] >= 1 and r.random() < 0.25:
        # a non-random list used as a per-element mask: the condition inside the foreach names mk[i]
        mk = {"n": "mk", "k": "list", "ek": "int", "w": 1, "s": False, "r": False, "rsz": False,
              "init": [r.randint(0, 1) for _ in range(L["sz"])]}
        fields.append(mk)
        prog["classes"]["T"]["fields"] = fields
        inner = ["e", ["b", r.choice(["<", "<=", "!=", ">", "=="]), ["it"], lit()]]
        els = [["e", ["b", r.choice(["!=", ">="]), ["it"], lit()]]] if r.random() < 0.5 else None
        st.append(["fe", ["l"], "both", [["if", [[["b", "==", ["el", ["mk"], ["idx"]], ["c", r.randint(0, 1)]], [inner]]], els]]])
    if kind == "fixed" and L["sz"] >= 2 and not esg and r.random() < 0.3:
        # single elements named by a literal index, related to each other and to a scalar in separate statements
        # (each statement may join two groups of related variables through the subscript)
        i, j = r.sample(range(L["sz"]), 2)
        sub = [["e", ["b", r.choice(["<", "<=", "!="]), ["f", ["l", i]], ["f", ["l", j]]]],
               ["e", ["b", r.choice(["<", "<=", "!=", ">"]), ["f", ["a"]], ["f", ["l", r.choice([i, j])]]]]]
        if r.random() < 0.5:
            sub.insert(0, ["e", ["b", r.choice(["<", ">", "!="]), ["f", ["a"]], ["c", r.randint(0, 3)]]])
        if r.random() < 0.5:
            sub[-1], sub[-2] = sub[-2], sub[-1]
        st_sub = sub
    else:
        st_sub = []
    if objlist is not None and objlist.get("rsz"):
        c = r.random()
        if c < 0.5:
            st.append(["e", ["in", ["sz", ["ol"]], [["c", v] for v in sorted(set(r.randint(0, 2) for _ in range(2)))]]])
        else:
            st.append(["e", ["b", r.choice([">", ">=", "<="]), ["sz", ["ol"]], ["c", r.randint(0, 2)]]])
        st.append(["fe", ["ol"], r.choice(["it", "both"]),
                   [["e", ["b", r.choice(["<", "!=", "=="]), ["ita", "x"], ["c", r.randint(0, 3)]]]]])
    elif objlist is not None:
        c = r.random()
        if c < 0.5:
            st.append(["fe", ["ol"], "it", [["e", ["b", r.choice(["<", "!=", ">="]), ["ita", "x"], ["ita", "y"]]]]])
        else:
            st.append(["fe", ["ol"], "both", [["if", [[["b", ">", ["idx"], ["c", 0]],
                                                       [["e", ["b", r.choice([">", "!="]), ["ita", "x"],
                                                               ["el", ["ol"], ["b", "-", ["idx"], ["c", 1]], "x"]]]]]], None]]])
        if r.random() < 0.4:
            st.append(["e", ["b", r.choice(["==", "<"]), ["f", ["ol", 0, "x"]], ["f", ["a"]]]])
    r.shuffle(st)
    if st_sub:
        # kept in this order at a random position
        k = r.randint(0, len(st))
        st[k:k] = st_sub
    # size constraints first keeps the source readable; order is semantically irrelevant
    nb = r.choice([1, 2])
    if nb == 1 or len(st) < 2:
        prog["classes"]["T"]["blocks"].append({"n": "c0", "st": st})
    else:
        h = len(st) // 2
        prog["classes"]["T"]["blocks"].append({"n": "c0", "st": st[:h]})
        prog["classes"]["T"]["blocks"].append({"n": "c1", "st": st[h:]})
    prog["_kind"] = kind
    if dyn_fe and kind != "nonrand" and r.random() < 0.3:
        # a dynamic block with a foreach: referenced by some calls only, and the list changes between them
        prog["classes"]["T"]["blocks"].append({"n": "dl", "dyn": True, "st": [
            ["fe", ["l"], "it", [["e", ["b", r.choice(["<", "<=", "!=", ">"]), ["it"], lit()]]]]]})
        prog["_dyn_fe"] = True
    return prog, g


def list_history(g, prog, ncalls=4, obj_edits=False):
    r = g.rng
    T = prog["classes"]["T"]
    L = [fd for fd in T["fields"] if fd["n"] == "l"][0]
    hist = []
    kind = prog["_kind"]
    cur_len = None if L.get("rsz") else (len(L["init"]) if "init" in L else L.get("sz", 0))
    for ci in range(ncalls):
        c = r.random()
        if c < 0.45 and ci > 0:
            # edit the exposed list between calls
            k = r.choice(["l_append", "l_append", "l_clear", "l_assign", "l_extend"])
            if k == "l_append":
                hist.append({"op": "l_append", "o": "o0", "path": ["l"], "v": g.rand_val(L["w"], L["s"])})
                cur_len = None if cur_len is None else cur_len + 1
            elif k == "l_extend":
                hist.append({"op": "l_extend", "o": "o0", "path": ["l"], "v": [g.rand_val(L["w"], L["s"]) for _ in range(2)]})
                cur_len = None if cur_len is None else cur_len + 2
            elif k == "l_clear":
                hist.append({"op": "l_clear", "o": "o0", "path": ["l"]})
                cur_len = None if cur_len is None else 0
            else:
                vals = [g.rand_val(L["w"], L["s"]) for _ in range(r.randint(0, 3))]
                hist.append({"op": "l_assign", "o": "o0", "path": ["l"], "v": vals})
                cur_len = None if cur_len is None else len(vals)
        if r.random() < 0.2:
            for fd in T["fields"]:
                if fd["k"] == "int" and not fd["r"]:
                    hist.append({"op": "set", "o": "o0", "path": [fd["n"]], "v": g.rand_val(fd["w"], fd["s"])})
        if obj_edits and ci > 0 and r.random() < 0.2 and any(fd["n"] == "ol" for fd in T["fields"]):
            # the user replaces / extends the objects of the list of objects between the calls
            c3 = r.random()
            if c3 < 0.4:
                hist.append({"op": "l_clear", "o": "o0", "path": ["ol"]})
                for _k in range(r.randint(1, 2)):
                    hist.append({"op": "l_append", "o": "o0", "path": ["ol"]})
            elif c3 < 0.7:
                hist.append({"op": "l_append", "o": "o0", "path": ["ol"]})
            else:
                # replace one object of the list by a new one
                hist.append({"op": "l_setobj", "o": "o0", "path": ["ol"], "i": 0})
        c2 = r.random()
        if prog.get("_dyn_fe") and c2 < 0.45:
            inl = [["e", ["dyn", [], "dl"]]]
            if r.random() < 0.3:
                inl.append(["e", ["b", r.choice(["<", ">", "!="]), ["f", ["a"]], ["c", r.randint(0, 3)]]])
            hist.append({"op": "with", "o": "o0", "inline": inl})
        elif c2 < 0.6:
            hist.append({"op": "randomize", "o": "o0"})
        elif c2 < 0.8 or not cur_len or not L["r"]:
            hist.append({"op": "with", "o": "o0", "inline": [["e", ["b", r.choice(["<", ">", "!="]), ["f", ["a"]], ["c", r.randint(0, 3)]]]]})
        else:
            # pin one element inline: together with the foreach bodies this makes some calls unsatisfiable
            i = r.randrange(cur_len)
            hist.append({"op": "with", "o": "o0", "inline": [["e", ["b", "==", ["f", ["l", i]], ["c", g.rand_val(L["w"], L["s"])]]]]})
    return hist


# ---------------------------------------------------------------------------
# value-range inference (C14)
# ---------------------------------------------------------------------------

def bounds_program(rng, max_bits=10, tiny=False):
    """top-level relational / in constraints against literals, non-random fields, expressions mixing random and
    non-random fields, other random fields (chains), overlapping / adjacent / unsorted rangelists, signed fields with
    negative bounds, enum fields, constraints under if/implies (which must not narrow)"""
    r = rng
    g = G(rng, max_bits)
    fields = []
    if tiny:
        nb = r.choice([1, 1, 2])
        widths = [r.choice([2, 3])] if nb == 1 else [2, r.choice([1, 2])]
        for i, w in enumerate(widths):
            fields.append({"n": "f%d" % i, "k": "int", "w": w, "s": r.random() < 0.35, "r": True})
        if r.random() < 0.6:
            fields.append(g.int_field("k0", False, w=3, signed=r.random() < 0.3))
    elif r.random() < 0.5:
        # fewer but wider fields: room for several disjoint ranges
        fields = [{"n": "f0", "k": "int", "w": r.choice([4, 5, 5, 6]), "s": r.random() < 0.3, "r": True}]
        fields.append({"n": "f1", "k": "int", "w": r.choice([2, 3, 4]), "s": fields[0]["s"], "r": True})
        if r.random() < 0.6:
            kf = g.int_field("k0", False, w=fields[0]["w"], signed=fields[0]["s"])
            fields.append(kf)
    else:
        fields = g.scalar_fields(nrand=r.randint(2, 4), nnon=r.choice([0, 1, 2]), allow_enum=True)
    prog = {"enums": g.enums, "classes": {"C0": {"base": None, "fields": fields, "blocks": []}}, "top": "C0"}
    scope = scope_of(prog, "C0")
    rands = [(p, fd) for p, fd in scope if fd["r"] and fd["k"] == "int"]
    nons = [(p, fd) for p, fd in scope if not fd["r"] and fd["k"] == "int"]
    if not rands:
        return None, g

    def rng_of(fd):
        w, sg = fd["w"], fd["s"]
        return (-(1 << (w - 1)), (1 << (w - 1)) - 1) if sg else (0, (1 << w) - 1)

    def top_stmt():
        p, fd = r.choice(rands)
        lo, hi = rng_of(fd)
        c = r.random()
        op = r.choice(["<", "<=", ">", ">=", "==", "!=", "<", ">"])
        if c < 0.24:
            return ["e", ["b", op, ["f", list(p)], ["c", r.randint(lo - 1, hi + 1)]]]
        if c < 0.28:
            # a sized literal of the OTHER signedness: the solver compares unsigned
            w = fd["w"]
            lit = ["u", r.randint(0, (1 << w) - 1), w] if fd["s"] else ["s", r.randint(-(1 << (w - 1)), (1 << (w - 1)) - 1), w]
            return ["e", ["b", op, ["f", list(p)], lit]]
        if c < 0.46 and nons:
            q, qd = r.choice(nons)
            rhs = ["f", list(q)]
            if qd["s"] == fd["s"]:
                cc = r.random()
                if cc < 0.2:
                    rhs = ["b", r.choice(["+", "-"]), rhs, ["c", r.randint(0, 2)]]
                elif cc < 0.7:
                    # a literal of the field's own width: the comparison is as wide as its operands only, so the
                    # sum / difference wraps where unbounded integers do not
                    v = r.randint(0, (1 << (qd["w"] - 1)) - 1) if qd["s"] else r.randint((1 << (qd["w"] - 1)) if r.random() < 0.5 else 0, (1 << qd["w"]) - 1)
                    rhs = ["b", r.choice(["+", "-"]), rhs, (["s", v, qd["w"]] if qd["s"] else ["u", v, qd["w"]])]
            # (a non-random field of the other signedness is compared as it is: the solver compares unsigned)
            return ["e", ["b", op, ["f", list(p)], rhs]]
        if c < 0.57 and len(rands) >= 2:
            same = [(q, qd) for q, qd in rands if qd["s"] == fd["s"] and q != p]
            if same:
                q, qd = r.choice(same)
                rhs = ["f", list(q)]
                cc = r.random()
                if cc < 0.3 and nons and [x for x in nons if x[1]["s"] == fd["s"]]:
                    k, kd = r.choice([x for x in nons if x[1]["s"] == fd["s"]])
                    rhs = ["b", "+", rhs, ["f", list(k)]]          # mixes a random and a non-random field
                elif cc < 0.5:
                    rhs = ["b", r.choice(["+", "-"]), rhs, ["c", r.randint(0, 2)]]
                return ["e", ["b", op, ["f", list(p)], rhs]]
        if c < 0.85:
            items = []
            same_n = [(q, qd) for q, qd in nons if qd["s"] == fd["s"]]
            for _ in range(r.randint(1, 4)):
                cc = r.random()
                if same_n and cc < 0.3:
                    # values / range ends given by non-random fields (they change between the calls)
                    q, qd = r.choice(same_n)
                    c3 = r.random()
                    if c3 < 0.4:
                        items.append(["f", list(q)])
                    elif c3 < 0.7:
                        items.append(["rng", ["c", r.randint(lo, hi)], ["f", list(q)]])
                    else:
                        items.append(["rng", ["f", list(q)], ["c", r.randint(lo, hi)]])
                elif cc < 0.6:
                    items.append(["c", r.randint(lo, hi)])
                else:
                    a, b = r.randint(lo, hi), r.randint(lo, hi)
                    if a > b:
                        a, b = b, a
                    items.append(["rng", ["c", a], ["c", b]])     # overlapping, adjacent and unsorted on purpose
            return ["e", [r.choice(["in", "in", "in", "nin"]), ["f", list(p)], items]]
        cond = g.boolean(scope, 1, 0)
        inner = ["e", ["b", op, ["f", list(p)], ["c", r.randint(lo, hi)]]]
        if r.random() < 0.5:
            return ["imp", cond, [inner]]
        return ["if", [[cond, [inner]]], [["e", ["b", "!=", ["f", list(p)], ["c", r.randint(lo, hi)]]]] if r.random() < 0.5 else None]
    def combo():
        """several disjoint multi-value ranges on one field combined with lower/upper bounds on the same field
        (literal, non-random field or another random field) that fall inside one of the ranges"""
        p, fd = r.choice(rands)
        lo, hi = rng_of(fd)
        span = hi - lo + 1
        out = []
        if span >= 8:
            cuts = sorted(r.sample(range(lo, hi + 1), min(6, span // 2) // 2 * 2))
            items = []
            for a, b in zip(cuts[0::2], cuts[1::2]):
                items.append(["rng", ["c", a], ["c", b]] if a != b else ["c", a])
            r.shuffle(items)
            out.append(["e", ["in", ["f", list(p)], items]])
        for _ in range(r.randint(1, 2)):
            op = r.choice([">", ">=", "<", "<=", ">", ">="])
            c = r.random()
            same_r = [(q, qd) for q, qd in rands if qd["s"] == fd["s"] and q != p]
            same_n = [(q, qd) for q, qd in nons if qd["s"] == fd["s"]]
            if c < 0.5 or not (same_r or same_n):
                out.append(["e", ["b", op, ["f", list(p)], ["c", r.randint(lo, hi)]]])
            elif c < 0.8 and same_r:
                out.append(["e", ["b", op, ["f", list(p)], ["f", list(r.choice(same_r)[0])]]])
            elif same_n:
                out.append(["e", ["b", op, ["f", list(p)], ["f", list(r.choice(same_n)[0])]]])
        return out
    FLIP = {"<": ">", "<=": ">=", ">": "<", ">=": "<=", "==": "==", "!=": "!="}

    def maybe_swap(s):
        """the same relation written with the non-random / literal operand on the left (a bare literal on the left
        is left to Python's reflected operators, a non-random field or sized literal is a real left operand)"""
        if s[0] == "e" and s[1][0] == "b" and s[1][1] in FLIP and r.random() < 0.3:
            e = s[1]
            L, R_ = e[2], e[3]
            if R_[0] == "c":
                if r.random() < 0.5:
                    w = 8
                    R_ = ["s", R_[1], w] if (L[0] == "f" and any(fd["s"] for q, fd in rands + nons if list(q) == L[1])) else \
                        (["u", R_[1], w] if R_[1] >= 0 else R_)
                return ["e", ["b", FLIP[e[1]], R_, L]]
            if R_[0] in ("f", "b"):
                return ["e", ["b", FLIP[e[1]], R_, L]]
        return s
    nblk = r.choice([1, 1, 2])
    for bi in range(nblk):
        st = [top_stmt() for _ in range(r.randint(1, 2 if tiny else 3))]
        if r.random() < 0.5:
            st = combo() + st[:1]
            r.shuffle(st)
        st = [maybe_swap(x) for x in st]
        enums = g.leaves(scope, None, kinds=("enum",))
        if enums and r.random() < 0.5:
            e = g.inset(scope, 0)
            if e:
                st.append(["e", e])
        prog["classes"]["C0"]["blocks"].append({"n": "c%d" % bi, "st": st})
    plant(prog, g, drop_p=0.9)
    return prog, g


def bounds_history(g, prog, ncalls=4):
    r = g.rng
    scope = scope_of(prog, "C0")
    hist = []
    blocks = [b["n"] for b in prog["classes"]["C0"]["blocks"]]
    for ci in range(ncalls):
        for p, fd in scope:
            if fd["k"] != "int":
                continue
            # previous values left in random fields, fresh values in non-random ones
            if (not fd["r"] and r.random() < 0.6) or (fd["r"] and r.random() < 0.25):
                hist.append({"op": "set", "o": "o0", "path": list(p), "v": g.rand_val(fd["w"], fd["s"])})
        if len(blocks) > 1 and r.random() < 0.2:
            hist.append({"op": "cmode", "o": "o0", "path": [], "blk": r.choice(blocks), "v": r.random() < 0.5})
        if r.random() < 0.75:
            hist.append({"op": "randomize", "o": "o0"})
        else:
            rands = [(p, fd) for p, fd in scope if fd["r"] and fd["k"] == "int"]
            p, fd = r.choice(rands)
            w, sg = fd["w"], fd["s"]
            lo, hi = (-(1 << (w - 1)), (1 << (w - 1)) - 1) if sg else (0, (1 << w) - 1)
            hist.append({"op": "with", "o": "o0", "inline": [["e", ["b", r.choice(["<", ">", "<=", ">=", "!="]),
                                                                     ["f", list(p)], ["c", r.randint(lo, hi)]]]]})
    return hist


# ---------------------------------------------------------------------------
# dist (C15)
# ---------------------------------------------------------------------------

def dist_entries(r, lo, hi, nmax=4, weights_from=None):
    """disjoint values / ranges inside [lo, hi] with weights (some zero)"""
    n = r.randint(2, nmax)
    span = hi - lo + 1
    cuts = sorted(r.sample(range(lo, hi + 1), min(span, 2 * n)))
    ents = []
    i = 0
    while i < len(cuts) and len(ents) < n:
        if r.random() < 0.5 and i + 1 < len(cuts) and cuts[i + 1] - cuts[i] <= 5:
            item = ["rng", ["c", cuts[i]], ["c", cuts[i + 1]]]
            i += 2
        else:
            item = ["c", cuts[i]]
            i += 1
        if weights_from and r.random() < 0.5:
            w = ["f", [r.choice(weights_from)]]
        else:
            w = ["c", r.choice([0, 1, 1, 2, 3, 5])]
        ents.append([item, w])
    if all(e[1] == ["c", 0] for e in ents):
        ents[0][1] = ["c", 2]
    if r.random() < 0.3:
        # a zero-weight entry that punches a hole into a listed range (or repeats a listed value)
        rngs = [e for e in ents if e[0][0] == "rng" and e[0][2][1] > e[0][1][1] and e[1] != ["c", 0]]
        if rngs:
            e = r.choice(rngs)
            lo_, hi_ = e[0][1][1], e[0][2][1]
            if r.random() < 0.6 or hi_ - lo_ < 2:
                ents.insert(r.randrange(len(ents) + 1), [["c", r.randint(lo_, hi_)], ["c", 0]])
            else:
                a_ = r.randint(lo_, hi_ - 1)
                ents.insert(r.randrange(len(ents) + 1), [["rng", ["c", a_], ["c", r.randint(a_, hi_)]], ["c", 0]])
    return ents


def dist_program(rng, pure=False, max_bits=9):
    r = rng
    g = G(rng, max_bits)
    fields = [{"n": "d", "k": "int", "w": r.choice([3, 4, 4]), "s": (not pure) and r.random() < 0.2, "r": True}]
    wf = []
    if r.random() < 0.6:
        for i in range(r.randint(1, 2)):
            fields.append({"n": "w%d" % i, "k": "int", "w": 3, "s": False, "r": False, "i": r.choice([0, 1, 2, 3, 4])})
            wf.append("w%d" % i)
    if not pure:
        fields.append(g.int_field("x", True, w=r.choice([2, 3]), signed=False))
        if r.random() < 0.4:
            fields.append(g.int_field("k", False, w=3, signed=False))
    prog = {"enums": {}, "classes": {"C0": {"base": None, "fields": fields, "blocks": []}}, "top": "C0"}
    D = fields[0]
    lo, hi = (-(1 << (D["w"] - 1)), (1 << (D["w"] - 1)) - 1) if D["s"] else (0, (1 << D["w"]) - 1)
    ents = dist_entries(r, lo, hi, weights_from=wf)
    st = [["dist", ["f", ["d"]], ents]]
    if not pure:
        scope = scope_of(prog, "C0")
        c = r.random()
        if c < 0.35:
            st.append(["e", ["b", r.choice(["<", ">", "!=", "<=", ">="]), ["f", ["d"]], ["c", r.randint(lo, hi)]]])
        elif c < 0.55:
            st.append(["e", ["b", r.choice(["<", "!=", ">"]), ["f", ["d"]], ["f", ["x"]]]] if not D["s"] else
                      ["e", ["b", "!=", ["f", ["d"]], ["c", r.randint(lo, hi)]]])
        elif c < 0.70:
            # dist under a condition
            cond = ["b", r.choice(["<", ">", "=="]), ["f", ["x"]], ["c", r.randint(0, 3)]]
            st = [["if", [[cond, [st[0]]]], [["dist", ["f", ["d"]], dist_entries(r, lo, hi, weights_from=wf)]] if r.random() < 0.5 else None]]
        elif c < 0.80:
            # a second dist on the same field (both are hard: the intersection of the two supports)
            st.append(["dist", ["f", ["d"]], dist_entries(r, lo, hi, weights_from=wf)])
        if r.random() < 0.3:
            st.append(["dist", ["f", ["x"]], dist_entries(r, 0, (1 << [f for f in fields if f["n"] == "x"][0]["w"]) - 1, nmax=3)])
    prog["classes"]["C0"]["blocks"].append({"n": "c0", "st": st})
    return prog, g


def dist_history(g, prog, ncalls=4):
    r = g.rng
    hist = []
    fields = prog["classes"]["C0"]["fields"]
    for ci in range(ncalls):
        for fd in fields:
            if fd["k"] == "int" and not fd["r"] and r.random() < 0.5:
                hist.append({"op": "set", "o": "o0", "path": [fd["n"]], "v": r.choice([0, 1, 2, 3, 5]) if fd["n"].startswith("w") else g.rand_val(fd["w"], fd["s"])})
        hist.append({"op": "randomize", "o": "o0"})
    return hist


# ---------------------------------------------------------------------------
# solve_order (C20)
# ---------------------------------------------------------------------------

def order_pair(rng):
    """Two programs that differ only in how many values of the later variable(s) accompany each value of the
    earlier one: same own-constraints on a, couplings of different multiplicity but (by construction) every value
    of a that satisfies a's own constraints stays extendable in both."""
    r = rng
    wa = r.choice([1, 2, 2])
    wb = r.choice([2, 3])
    # topology of the ordering: a->b | a->b->c | a->b, b->c, a->c (three statements, same meaning as the chain) |
    # a->c, b->c (two statements naming the same later field)
    topo = r.choice(["pair", "pair", "pair", "chain", "chain", "triangle", "fanin", "fanin"])
    chain = topo != "pair"
    wc = 2
    if topo == "fanin":
        # a and b are swizzled in one step: keep the number of choice paths enumerable
        wa, wb = r.choice([1, 2]), r.choice([1, 2, 2])
    elif chain:
        # three ordered fields: keep the enumeration complete also when an ordering defect merges two steps
        wb, wc = 2, r.choice([1, 2])
    cmax = (1 << wc) - 1
    fields = [{"n": "a", "k": "int", "w": wa, "s": False, "r": True},
              {"n": "b", "k": "int", "w": wb, "s": False, "r": True}]
    if chain:
        fields.append({"n": "c", "k": "int", "w": wc, "s": False, "r": True})
    extra_a = r.random() < 0.3
    if extra_a:
        fields.append({"n": "x", "k": "int", "w": 1, "s": False, "r": True})
    amax = (1 << wa) - 1
    bmax = (1 << wb) - 1
    own = []
    c = r.random()
    if c < 0.25 and wa >= 2:
        own.append(["e", ["b", "!=", ["f", ["a"]], ["c", r.randint(0, amax)]]])
    elif c < 0.40 and wa >= 2:
        own.append(["e", ["b", r.choice(["<", "<="]), ["f", ["a"]], ["c", r.randint(1, amax)]]])
    elif c < 0.5 and wa >= 2:
        own.append(["e", ["in", ["f", ["a"]], [["c", v] for v in sorted(r.sample(range(amax + 1), r.randint(2, amax)))]]])

    def coupling():
        # the later partner of a: b, or (fan-in: a and b both before c, a and b not ordered and not coupled) c
        ln, lmax, lw = ("c", cmax, wc) if topo == "fanin" else ("b", bmax, wb)
        k = r.choice(["le", "ge", "ifeq", "imp", "sum", "ne"])
        if k == "le":
            return [["e", ["b", "<=", ["f", [ln]], ["f", ["a"]]]]]
        if k == "ge":
            return [["e", ["b", ">=", ["f", [ln]], ["f", ["a"]]]]]
        if k == "ne":
            return [["e", ["b", "!=", ["f", [ln]], ["f", ["a"]]]]]
        if k == "ifeq":
            v = r.randint(0, amax)
            return [["if", [[["b", "==", ["f", ["a"]], ["c", v]], [["e", ["b", "==", ["f", [ln]], ["c", r.randint(0, lmax)]]]]]],
                     [["e", ["b", r.choice(["<", ">="]), ["f", [ln]], ["c", r.randint(1, lmax)]]]] if r.random() < 0.5 else None]]
        if k == "imp":
            v = r.randint(0, amax)
            return [["imp", ["b", "==", ["f", ["a"]], ["c", v]],
                     [["e", ["in", ["f", [ln]], [["c", x] for x in sorted(r.sample(range(lmax + 1), r.randint(1, 2)))]]]]]]
        return [["e", ["b", "<=", ["b", "+", ["f", ["a"]], ["f", [ln]]], ["u", lmax, lw + 1]]]]
    progs = []
    vary = "bc" if (topo in ("chain", "triangle") and r.random() < 0.7) else "ab"
    shared_ab = coupling()

    bc_ops = r.sample(["<=", ">=", "!=", "<"], 2)     # the two partner programs get couplings of different multiplicity
    bc_first = r.random() < 0.5
    bc_kind = r.choice(["rel", "rel", "imp", "ifeq"])

    def bc_coupling(which=0):
        k = bc_kind
        if k == "rel":
            return [["e", ["b", bc_ops[which], ["f", ["c"]], ["f", ["b"]]]]]
        if k == "imp":
            return [["imp", ["b", "!=", ["f", ["c"]], ["c", 0]], [["e", ["b", "!=", ["f", ["b"]], ["c", r.randint(0, bmax)]]]]]]
        return [["if", [[["b", "==", ["f", ["b"]], ["c", r.randint(0, bmax)]], [["e", ["b", "==", ["f", ["c"]], ["c", r.randint(0, cmax)]]]]]], None]]
    for which in range(2):
        st = [copy.deepcopy(s) for s in own] + (copy.deepcopy(shared_ab) if vary == "bc" else coupling())
        if chain:
            bc = bc_coupling(which if topo != "fanin" else 0)
            # the statements may mention later chain members before their predecessors
            st = (bc + st) if bc_first else (st + bc)
        order = []
        if extra_a and r.random() < 0.5:
            order.append(["so", [["a"], ["x"]], [["b"]]])
        else:
            order.append(["so", [["a"]], [["b"]]])
        if topo == "fanin":
            order = [["so", [["a"]], [["c"]]], ["so", [["b"]], [["c"]]]]
        elif chain:
            order.append(["so", [["b"]], [["c"]]])
        if topo == "triangle":
            order.append(["so", [["a"]], [["c"]]])
        if topo in ("fanin", "triangle") and which == 0:
            order_perm = list(range(len(order)))
            r.shuffle(order_perm)
        if topo in ("fanin", "triangle"):
            order = [order[i] for i in order_perm]
        blocks = [{"n": "c0", "st": st + order}] if r.random() < 0.6 else [{"n": "c0", "st": st}, {"n": "ord", "st": order}]
        progs.append({"enums": {}, "classes": {"C0": {"base": None, "fields": copy.deepcopy(fields), "blocks": blocks}}, "top": "C0",
                      "vary": vary, "topo": topo})
    return progs


# ---------------------------------------------------------------------------
# wide programs with a planted witness (widths up to 64)
# ---------------------------------------------------------------------------

def wide_program(rng):
    """fields of 8..64 bits; every class statement is (re)generated until the reference evaluates it to true on a
    drawn witness assignment, so the program is known to be satisfiable without enumerating anything"""
    r = rng
    g = G(rng, 400)
    fields = []
    for i in range(r.randint(2, 5)):
        w = r.choice([8, 12, 16, 24, 31, 32, 33, 48, 63, 64])
        fields.append({"n": "f%d" % i, "k": "int", "w": w, "s": r.random() < 0.35, "r": True})
    for i in range(r.choice([0, 1, 2])):
        w = r.choice([8, 16, 32, 64])
        sg = r.random() < 0.3
        fields.append({"n": "k%d" % i, "k": "int", "w": w, "s": sg, "r": False, "i": g.rand_val(w, sg)})
    if r.random() < 0.3:
        g.mk_enum("E0")
        fields.append({"n": "e0", "k": "enum", "e": "E0", "r": True})
    prog = {"enums": g.enums, "classes": {"C0": {"base": None, "fields": fields, "blocks": []}}, "top": "C0"}
    scope = scope_of(prog, "C0")
    st0 = R.new_state(prog, "C0")
    call0 = R.Call(prog, st0)
    wit = {}
    for p, t in call0.rand_leaves:
        if t[0] == "enum":
            wit[p] = r.choice([m for m, _ in g.enums[t[1]]])
        else:
            w, sg = t[1], t[2]
            lo, hi = (-(1 << (w - 1)), (1 << (w - 1)) - 1) if sg else (0, (1 << w) - 1)
            wit[p] = r.choice([r.randint(lo, hi), r.randint(max(lo, -100), min(hi, 100)), lo, hi, 0])

    def lit_near(fd):
        """literal close to the witness value of a field (so that relational statements are tight)"""
        v = wit.get((fd["n"],), 0)
        d = r.choice([0, 0, 1, -1, 5, -7, 1000])
        x = v + d
        if fd["s"]:
            x = max(-(1 << (fd["w"] - 1)), min((1 << (fd["w"] - 1)) - 1, x))
            if -(1 << 31) <= x < (1 << 31) and r.random() < 0.5:
                return ["c", x]
            return ["s", x, fd["w"]]
        x = max(0, min((1 << fd["w"]) - 1, x))
        if x < (1 << 31) and r.random() < 0.4 and fd["w"] <= 32:
            return ["c", x]
        return ["u", x, fd["w"]]

    def stmt():
        ints = [(p, fd) for p, fd in scope if fd["k"] == "int"]
        p, fd = r.choice([x for x in ints if x[1]["r"]] or ints)
        c = r.random()
        if c < 0.45:
            return ["e", ["b", r.choice(["<", "<=", ">", ">=", "==", "!="]), ["f", list(p)], lit_near(fd)]]
        if c < 0.65:
            same = [(q, qd) for q, qd in ints if qd["s"] == fd["s"] and q != p]
            if same:
                q, qd = r.choice(same)
                return ["e", ["b", r.choice(["<", "<=", ">", ">=", "!=", "=="]), ["f", list(p)], ["f", list(q)]]]
        if c < 0.8:
            # a range written with two expression objects (vsc.unsigned / vsc.signed) as bounds is paired through the
            # shared expression stack in the wrong order: ranges are only written with bare ints (32-bit), wide values
            # as single sized literals
            v = wit.get(p, 0)
            items = [lit_near(fd), lit_near(fd)]
            if -(1 << 30) < v < (1 << 30):
                lo_t = -(1 << (fd["w"] - 1)) if fd["s"] else 0
                a = max(lo_t, v - r.randint(0, 9))
                items.append(["rng", ["c", a], ["c", v + r.randint(0, 9)]])
            r.shuffle(items)
            return ["e", ["in", ["f", list(p)], items]]
        if c < 0.9:
            hi = r.randint(0, fd["w"] - 1)
            lo = r.randint(max(0, hi - 12), hi)
            v = wit.get(p, 0)
            bits = ((v & ((1 << fd["w"]) - 1)) >> lo) & ((1 << (hi - lo + 1)) - 1)
            return ["e", ["b", "==", ["ps", list(p), hi, lo], ["u", bits, hi - lo + 1]]]
        e = g.cmp(scope, 1)
        return ["e", e] if e else None
    nb = r.choice([1, 2])
    for bi in range(nb):
        st = []
        for _ in range(r.randint(1, 3)):
            for _try in range(8):
                s = stmt()
                if s is None:
                    continue
                try:
                    if R.stmt_holds(s, R.Ctx(prog, st0, (), wit)):
                        st.append(s)
                        break
                except R.Corner:
                    continue
        prog["classes"]["C0"]["blocks"].append({"n": "c%d" % bi, "st": st})
    return prog, g, {"/".join(map(str, p)): v for p, v in wit.items()}
