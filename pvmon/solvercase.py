"""Common runner for solver-facing cases: executes {prog, hist} in a Session
and hands the call events to property-specific oracles."""
from . import build as B
from . import common
from . import oracle as O
from . import ref as R
from .session import Session


def source_of(spec):
    lines = [B.src_program(spec["prog"])]
    for op in spec.get("hist", []):
        lines.append(src_op(op))
    return "\n".join(lines)


def src_op(op):
    k = op["op"]
    o = op.get("o", "o0")
    if k == "new":
        return "%s = %s()" % (op["name"], op.get("cls", "Top"))
    if k == "set":
        return "%s%s = %r" % (o, B._src_path(op["path"]), op["v"])
    if k == "rand_mode":
        return "with vsc.raw_mode(): %s%s.rand_mode = %r" % (o, B._src_path(op["path"]), op["v"])
    if k == "cmode":
        return "%s%s.%s.constraint_mode(%r)" % (o, B._src_path(op["path"]), op["blk"], op["v"])
    if k == "randomize":
        return "%s%s.randomize()" % (o, B._src_path(op.get("target", [])))
    if k == "with":
        return "with %s%s.randomize_with() as it:\n%s" % (o, B._src_path(op.get("target", [])),
                                                           "\n".join(B.src_stmts(op["inline"], 4, "it")))
    if k == "free":
        fs = ", ".join(o + B._src_path(f) for f in op["fields"])
        if op.get("inline") is None:
            return "vsc.randomize(%s)" % fs
        return "with vsc.randomize_with(%s):\n%s" % (fs, "\n".join(B.src_stmts(op["inline"], 4, o)))
    return repr(op)


def run(spec, callbacks=False, on_event=None):
    """-> (session, events).  Creates instance o0 of the top class first."""
    sess = Session(spec["prog"], callbacks=callbacks, seed=spec.get("seed", 1))
    sess.new("o0")
    _check_initial(sess, "o0")
    evs = []
    for op in spec.get("hist", []):
        ev = sess.apply(op)
        evs.append(ev)
        if on_event:
            on_event(sess, ev)
    return sess, evs


def is_call(ev):
    return ev["op"]["op"] in ("randomize", "with", "free")


def describe_exc(ev):
    return "%s: %s" % (ev.get("exc_type"), ev.get("exc_msg"))


def release(evs):
    """deterministic release of solver clones held by the events of a finished case"""
    for ev in evs:
        for rec in ev.get("records") or []:
            rec.release()
        ev["records"] = []


def _values_of_state(st):
    out = {}
    for n, v in st["f"].items():
        if isinstance(v, dict) and "cls" in v:
            out[n] = _values_of_state(v)
        elif isinstance(v, list) and v and isinstance(v[0], dict):
            out[n] = [_values_of_state(x) for x in v]
        elif isinstance(v, list):
            out[n] = list(v)
        else:
            out[n] = v
    return out


def _values_of_snap(sn):
    out = {}
    for n, v in sn["f"].items():
        if isinstance(v, dict):
            out[n] = _values_of_snap(v)
        elif isinstance(v, list) and v and isinstance(v[0], dict):
            out[n] = [_values_of_snap(x) for x in v]
        else:
            out[n] = v
    return out


def _check_initial(sess, inst):
    """harness self-check: the reference's idea of a fresh object equals what the live object shows"""
    a = _values_of_state(sess.state[inst])
    b = _values_of_snap(sess.snapshot(inst))
    a = {k: v for k, v in a.items() if k in b}
    if a != b:
        raise Exception("harness: initial reference state %r differs from live object %r" % (a, b))
