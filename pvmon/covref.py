"""M6 - independent, set-based reference model of functional coverage.

Nothing in here imports vsc.  A bin is a frozenset of integer values; every
rule below is taken from the property statements C10-C13/C19, not from the
library's code:

  * explicit bin        = union of its listed values and ranges
  * bin array           = ascending list of distinct values, split into n
                          consecutive equal-size bins, remainder in the last
                          one; one bin per value without a count (or when the
                          count is >= the number of values)
  * auto bins           = the type's value range split like a bin array with
                          n = auto_bin_max (default 64); enum: one bin per
                          enumerator (ascending value)
  * ignore / illegal    = removed from every regular bin (wildcard bins included)
                          before partitioning, tallied in counters of their own
  * a value in two explicit bins counts in both; outside every bin: nothing
  * cross               = cartesian product in coverpoint order, "<a,b>";
                          +1 iff cross iff, every coverpoint iff and every
                          coverpoint hit a bin
  * instance tally      = own samples; type tally = bin-wise sum over the
                          instances of one shape; other shape = other type
  * coverage            = 100 * share of bins with hits >= at_least, weighted
                          average over coverpoints and crosses
  * wildcard            = v matches iff (v & mask) == (value & mask) for some
                          pattern; array = one bin per matching value of the
                          coverpoint's type (or partitioned by count)

Specification format (JSON-able), shared with covbuild.py:

  cgspec = {"name": str, "style": "ws"|"ro"|"lm",
            "enums": {ename: [[member, value], ...]},
            "fields": [{"n": name, "t": "bit"|"int"|"enum", "w": width, "e": ename}],
            "ext":    [same as fields]      # plain python variables read by lambdas
            "options": {"at_least": k, "weight": k, "auto_bin_max": k},
            "variants": [ {"cps": [cpspec...], "crosses": [crspec...]} , ...]}
  cpspec = {"name": str, "src": field-or-ext name, "lam": bool,
            "bins": None | [[name, binspec], ...],
            "ignore": [[name, binspec]], "illegal": [[name, binspec]],
            "options": {...}, "iff": None | iffspec}
  binspec = {"k": "bin",   "items": [item...]}
          | {"k": "array", "n": None|int, "nform": "list"|"int", "items": [item...]}
          | {"k": "wild",  "pats": [pat...]}
          | {"k": "warray","n": None|int, "pats": [pat...]}
  item    = int | [lo, hi] (written as a list) | {"t": [lo, hi]} (written as a tuple)
  pat     = "0x8x" | [value, mask]
  iffspec = {"v": name, "op": "nz"} | {"v": name, "op": "eq", "k": int}, plus "call": bool
  crspec  = {"name": str, "cps": [cpname...], "iff": None|iffspec, "options": {...}}
"""

DEFAULT_AUTO_BIN_MAX = 64


# ---------------------------------------------------------------- value sets
def type_values(fdesc, enums):
    """ascending list of all values of a field's type"""
    t = fdesc["t"]
    if t == "bit":
        return list(range(0, 1 << fdesc["w"]))
    if t == "int":
        return list(range(-(1 << (fdesc["w"] - 1)), 1 << (fdesc["w"] - 1)))
    if t == "enum":
        return sorted(v for _, v in enums[fdesc["e"]])
    raise ValueError("unknown field type %r" % (t,))


def item_values(item):
    if isinstance(item, dict):
        lo, hi = item["t"]
        return range(lo, hi + 1)
    if isinstance(item, (list, tuple)):
        lo, hi = item
        return range(lo, hi + 1)
    return (int(item),)


def items_set(items):
    s = set()
    for it in items:
        s.update(item_values(it))
    return s


def partition(values, n):
    """values: ascending list of distinct values -> list of frozensets"""
    nv = len(values)
    if nv == 0:
        return []
    if n is None or n >= nv:
        return [frozenset((v,)) for v in values]
    size = nv // n
    out = []
    for i in range(n - 1):
        out.append(frozenset(values[i * size:(i + 1) * size]))
    out.append(frozenset(values[(n - 1) * size:]))
    return out


# ------------------------------------------------------------------ wildcard
_BASES = {"x": 4, "o": 3, "b": 1}


def wild_parse(pat):
    """-> (value, mask, nbits).  Strings: 0x / 0o / 0b prefix, digits, the
    wildcard digits x X ? and the separator _ ; pairs: (value, mask)."""
    if isinstance(pat, (list, tuple)):
        value, mask = int(pat[0]), int(pat[1])
        return value, mask, max(value.bit_length(), mask.bit_length())
    s = pat
    if len(s) < 2 or s[0] != "0" or s[1].lower() not in _BASES:
        raise ValueError("bad wildcard string %r" % (pat,))
    per = _BASES[s[1].lower()]
    value = mask = nbits = 0
    for ch in s[2:]:
        if ch == "_":
            continue
        value <<= per
        mask <<= per
        nbits += per
        if ch in "xX?":
            continue
        d = int(ch, 1 << per)
        value |= d
        mask |= (1 << per) - 1
    return value, mask, nbits


def wild_match(v, pats):
    for p in pats:
        value, mask, _ = wild_parse(p)
        if (v & mask) == (value & mask):
            return True
    return False


def wild_values(pats, tvalues):
    return [v for v in tvalues if wild_match(v, pats)]


# ---------------------------------------------------------------- structures
class RefCP(object):
    """flat bin lists of one coverpoint: [(name, frozenset)]"""

    def __init__(self, cpspec, cgspec, wild_excl=True):
        """wild_excl=False builds the ALTERNATIVE model in which ignore/illegal values are
        not removed from wildcard bins (used only to recognise a known finding's symptom)"""
        enums = cgspec.get("enums", {})
        self.spec = cpspec
        self.name = cpspec["name"]
        self.src = cpspec["src"]
        self.iff = cpspec.get("iff")
        fd = None
        for f in list(cgspec.get("fields", [])) + list(cgspec.get("ext", [])):
            if f["n"] == self.src:
                fd = f
        if fd is None:
            raise ValueError("coverpoint %s: unknown source %s" % (self.name, self.src))
        self.fdesc = fd
        self.tvalues = type_values(fd, enums)
        cgo = cgspec.get("options") or {}
        cpo = cpspec.get("options") or {}
        self.at_least = cpo.get("at_least", cgo.get("at_least", 1))
        self.weight = cpo.get("weight", 1)
        self.auto_bin_max = cpo.get("auto_bin_max", cgo.get("auto_bin_max", DEFAULT_AUTO_BIN_MAX))
        self.ignore = [(n, frozenset(items_set(b["items"]))) for n, b in (cpspec.get("ignore") or [])]
        self.illegal = [(n, frozenset(items_set(b["items"]))) for n, b in (cpspec.get("illegal") or [])]
        excl = set()
        for _, s in self.ignore + self.illegal:
            excl |= s
        self.excluded = excl
        self.bins = []
        # origin[i] = (declaring bin name | None for auto, index inside that declaration)
        self.origin = []
        self.empty_decls = []   # declarations whose every value was removed
        bl = cpspec.get("bins")
        if not bl:
            vals = [v for v in self.tvalues if v not in excl]
            if fd["t"] == "enum":
                m = {v: k for k, v in enums[fd["e"]]}
                for i, v in enumerate(vals):
                    self.bins.append(("%s.%s" % (fd["e"], m[v]), frozenset((v,))))
                    self.origin.append((None, i))
            else:
                for i, s in enumerate(partition(vals, self.auto_bin_max)):
                    self.bins.append(("%s[%d]" % (self.name, i), s))
                    self.origin.append((None, i))
            if not vals:
                self.empty_decls.append("<auto>")
        else:
            for bname, b in bl:
                k = b["k"]
                if k == "bin":
                    s = items_set(b["items"]) - excl
                    if s:
                        self.bins.append((bname, frozenset(s)))
                        self.origin.append((bname, 0))
                    else:
                        self.empty_decls.append(bname)
                elif k == "array":
                    vals = sorted(items_set(b["items"]) - excl)
                    parts = partition(vals, b.get("n"))
                    for i, s in enumerate(parts):
                        self.bins.append(("%s[%d]" % (bname, i), s))
                        self.origin.append((bname, i))
                    if not parts:
                        self.empty_decls.append(bname)
                elif k == "wild":
                    s = frozenset(v for v in wild_values(b["pats"], self.tvalues) if not (wild_excl and v in excl))
                    # a wildcard bin exists even when nothing of the type matches
                    self.bins.append((bname, s))
                    self.origin.append((bname, 0))
                elif k == "warray":
                    vals = [v for v in wild_values(b["pats"], self.tvalues) if not (wild_excl and v in excl)]
                    for i, s in enumerate(partition(vals, b.get("n"))):
                        self.bins.append(("%s[%d]" % (bname, i), s))
                        self.origin.append((bname, i))
                else:
                    raise ValueError("unknown bin kind %r" % (k,))

    def hit_bins(self, v):
        return [i for i, (_, s) in enumerate(self.bins) if v in s]

    def shape(self):
        return (self.name,
                tuple((n, tuple(sorted(s))) for n, s in self.bins),
                tuple((n, tuple(sorted(s))) for n, s in self.ignore),
                tuple((n, tuple(sorted(s))) for n, s in self.illegal))


class RefCross(object):
    def __init__(self, crspec, cps_by_name, cgspec):
        self.spec = crspec
        self.name = crspec["name"]
        self.cps = [cps_by_name[n] for n in crspec["cps"]]
        self.iff = crspec.get("iff")
        cgo = cgspec.get("options") or {}
        cro = crspec.get("options") or {}
        self.at_least = cro.get("at_least", cgo.get("at_least", 1))
        self.weight = cro.get("weight", 1)
        self.dims = [len(cp.bins) for cp in self.cps]
        n = 1
        for d in self.dims:
            n *= d
        self.nbins = n

    def index(self, tup):
        idx = 0
        for d, t in zip(self.dims, tup):
            idx = idx * d + t
        return idx

    def tuple_of(self, idx):
        out = []
        for d in reversed(self.dims):
            out.append(idx % d)
            idx //= d
        return tuple(reversed(out))

    def bin_name(self, idx, cp_bin_names=None):
        """cp_bin_names: optional list (per crossed coverpoint) of name lists to
        build the name from (e.g. the names the library reports)"""
        t = self.tuple_of(idx)
        parts = []
        for k, cp in enumerate(self.cps):
            if cp_bin_names is not None:
                parts.append(cp_bin_names[k][t[k]])
            else:
                parts.append(cp.bins[t[k]][0])
        return "<" + ",".join(parts) + ">"

    def shape(self):
        return (self.name, tuple(cp.name for cp in self.cps))


class RefShape(object):
    """one covergroup class instantiated with one constructor variant"""

    def __init__(self, cgspec, variant=0, wild_excl=True):
        self.cgspec = cgspec
        self.variant = variant
        var = cgspec["variants"][variant]
        self.cps = [RefCP(c, cgspec, wild_excl) for c in var["cps"]]
        by = {c.name: c for c in self.cps}
        self.crosses = [RefCross(c, by, cgspec) for c in var.get("crosses", [])]
        self.key = (cgspec["name"], tuple(c.shape() for c in self.cps), tuple(c.shape() for c in self.crosses))
        # the same without bin names (generators keep variants apart by value sets, not by names only)
        self.value_key = (cgspec["name"],
                          tuple((c.name,) + tuple(tuple(s for _, s in part) for part in c.shape()[1:]) for c in self.cps),
                          tuple(c.shape() for c in self.crosses))


def eval_iff(iff, values):
    if iff is None:
        return True
    v = values[iff["v"]]
    if iff["op"] == "nz":
        return v != 0
    if iff["op"] == "eq":
        return v == iff["k"]
    raise ValueError("unknown iff op %r" % (iff,))


class Tally(object):
    def __init__(self, shape):
        self.shape = shape
        self.cp = [[0] * len(c.bins) for c in shape.cps]
        self.ign = [[0] * len(c.ignore) for c in shape.cps]
        self.ill = [[0] * len(c.illegal) for c in shape.cps]
        self.cr = [[0] * c.nbins for c in shape.crosses]
        self.nsamples = 0

    def sample(self, values):
        """values: {field/ext name: int}; returns a short description of what happened"""
        sh = self.shape
        self.nsamples += 1
        hit = {}
        gate = {}
        for ci, cp in enumerate(sh.cps):
            g = eval_iff(cp.iff, values)
            gate[cp.name] = g
            hit[cp.name] = []
            if not g:
                continue
            v = values[cp.src]
            hs = cp.hit_bins(v)
            hit[cp.name] = hs
            for i in hs:
                self.cp[ci][i] += 1
            for i, (_, s) in enumerate(cp.ignore):
                if v in s:
                    self.ign[ci][i] += 1
            for i, (_, s) in enumerate(cp.illegal):
                if v in s:
                    self.ill[ci][i] += 1
        xinc = []
        for xi, cr in enumerate(sh.crosses):
            if not eval_iff(cr.iff, values):
                xinc.append(None)
                continue
            tup = []
            ok = True
            for cp in cr.cps:
                if not gate[cp.name] or not hit[cp.name]:
                    ok = False
                    break
                # the statement presupposes "the" bin a coverpoint hit
                tup.append(hit[cp.name][0])
            if ok:
                idx = cr.index(tup)
                self.cr[xi][idx] += 1
                xinc.append(idx)
            else:
                xinc.append(None)
        return {"hit": hit, "gate": gate, "xinc": xinc}

    def add(self, other):
        for a, b in ((self.cp, other.cp), (self.ign, other.ign), (self.ill, other.ill), (self.cr, other.cr)):
            for la, lb in zip(a, b):
                for i, x in enumerate(lb):
                    la[i] += x

    # -------------------------------------------------------------- coverage
    def item_coverages(self, honour_at_least=True):
        """-> ([cp %], [cross %]); None for an item without bins"""
        sh = self.shape

        def share(hits, at_least):
            if not hits:
                return None
            th = at_least if honour_at_least else 1
            return 100.0 * sum(1 for h in hits if h >= th) / len(hits)
        return ([share(h, c.at_least) for h, c in zip(self.cp, sh.cps)],
                [share(h, c.at_least) for h, c in zip(self.cr, sh.crosses)])

    def coverage(self, honour_at_least=True, honour_weight=True):
        sh = self.shape
        cps, crs = self.item_coverages(honour_at_least)
        num = den = 0.0
        for c, it in list(zip(cps, sh.cps)) + list(zip(crs, sh.crosses)):
            if c is None:
                return None
            w = it.weight if honour_weight else 1
            num += w * c
            den += w
        if den == 0:
            return None
        return num / den

    def all_covered(self):
        sh = self.shape
        for hits, it in list(zip(self.cp, sh.cps)) + list(zip(self.cr, sh.crosses)):
            for h in hits:
                if h < it.at_least:
                    return False
        return True


class World(object):
    """all covergroup instances and types of one case"""

    def __init__(self, cgspecs):
        self.cgspecs = cgspecs
        self.insts = []       # [(cg index, variant, Tally)]
        self.type_keys = []   # creation order of shapes
        self._shapes = {}

    def shape(self, cgi, variant):
        k = (cgi, variant)
        if k not in self._shapes:
            self._shapes[k] = RefShape(self.cgspecs[cgi], variant)
        return self._shapes[k]

    def new_inst(self, cgi, variant):
        sh = self.shape(cgi, variant)
        self.insts.append((cgi, variant, Tally(sh)))
        if sh.key not in self.type_keys:
            self.type_keys.append(sh.key)
        return len(self.insts) - 1

    def sample(self, inst, values):
        return self.insts[inst][2].sample(values)

    def type_key(self, inst):
        return self.insts[inst][2].shape.key

    def insts_of(self, key):
        return [i for i, (_, _, t) in enumerate(self.insts) if t.shape.key == key]

    def type_tally(self, key):
        members = self.insts_of(key)
        tot = Tally(self.insts[members[0]][2].shape)
        for i in members:
            tot.add(self.insts[i][2])
        return tot
