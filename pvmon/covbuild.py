"""Builds live pyvsc covergroups from the JSON-able specification described in
covref.py, drives them, reads them back through the model getters, and
pretty-prints a specification as pyvsc source text (evidence samples).

Sampling styles:
  "ws"  sample values are parameters of cg.sample(...) declared with with_sample(dict(...))
  "ro"  sample values are fields of a randobj passed to the constructor; cg.sample()
  "lm"  every coverpoint target is a lambda reading a plain python dict; cg.sample()
Independently of the style a coverpoint with "lam": true uses a lambda target
(cp_t=...) and an iff with "call": true is a callable.
"""
import enum

from .libstate import import_vsc, quiet


# ------------------------------------------------------------------ helpers
def _item_py(it):
    if isinstance(it, dict):
        return tuple(it["t"])
    if isinstance(it, (list, tuple)):
        return [it[0], it[1]]
    return int(it)


def _item_src(it):
    if isinstance(it, dict):
        return "(%d, %d)" % tuple(it["t"])
    if isinstance(it, (list, tuple)):
        return "[%d, %d]" % (it[0], it[1])
    return str(int(it))


def _pat_py(p):
    if isinstance(p, (list, tuple)):
        return (int(p[0]), int(p[1]))
    return str(p)


def _pat_src(p):
    if isinstance(p, (list, tuple)):
        return "(0x%x, 0x%x)" % (p[0], p[1])
    return repr(str(p))


def _mk_bin(vsc, b):
    k = b["k"]
    if k == "bin":
        return vsc.bin(*[_item_py(i) for i in b["items"]])
    if k == "array":
        n = b.get("n")
        if n is None:
            nb = []
        elif b.get("nform") == "int":
            nb = int(n)
        else:
            nb = [int(n)]
        return vsc.bin_array(nb, *[_item_py(i) for i in b["items"]])
    if k == "wild":
        return vsc.wildcard_bin(*[_pat_py(p) for p in b["pats"]])
    if k == "warray":
        n = b.get("n")
        return vsc.wildcard_bin_array([] if n is None else [int(n)], *[_pat_py(p) for p in b["pats"]])
    raise ValueError("unknown bin kind %r" % (k,))


def _bin_src(b):
    k = b["k"]
    if k == "bin":
        return "vsc.bin(%s)" % ", ".join(_item_src(i) for i in b["items"])
    if k == "array":
        n = b.get("n")
        nb = "[]" if n is None else (str(n) if b.get("nform") == "int" else "[%d]" % n)
        return "vsc.bin_array(%s, %s)" % (nb, ", ".join(_item_src(i) for i in b["items"]))
    if k == "wild":
        return "vsc.wildcard_bin(%s)" % ", ".join(_pat_src(p) for p in b["pats"])
    if k == "warray":
        n = b.get("n")
        return "vsc.wildcard_bin_array(%s, %s)" % ("[]" if n is None else "[%d]" % n,
                                                   ", ".join(_pat_src(p) for p in b["pats"]))
    return "?"


def _type_src(f, rand=False):
    if f["t"] == "bit":
        return "vsc.%sbit_t(%d)" % ("rand_" if rand else "", f["w"])
    if f["t"] == "int":
        return "vsc.%sint_t(%d)" % ("rand_" if rand else "", f["w"])
    return "vsc.%senum_t(%s)" % ("rand_" if rand else "", f["e"])


def make_enums(cgspec):
    return {n: enum.IntEnum(n, [(k, v) for k, v in members]) for n, members in (cgspec.get("enums") or {}).items()}


def _mk_type(vsc, f, enums, rand=False):
    if f["t"] == "bit":
        return (vsc.rand_bit_t if rand else vsc.bit_t)(f["w"])
    if f["t"] == "int":
        return (vsc.rand_int_t if rand else vsc.int_t)(f["w"])
    return (vsc.rand_enum_t if rand else vsc.enum_t)(enums[f["e"]])


# -------------------------------------------------------------------- build
class LiveClass(object):
    """one generated covergroup class (all its constructor variants)"""

    def __init__(self, cgspec):
        vsc = import_vsc()
        self.spec = cgspec
        self.enums = make_enums(cgspec)
        self.fields = list(cgspec.get("fields") or [])
        self.ext = list(cgspec.get("ext") or [])
        self.style = cgspec.get("style", "ws")
        self.fdesc = {f["n"]: f for f in self.fields + self.ext}
        enums = self.enums
        fields = self.fields
        style = self.style
        spec = cgspec
        self.item_cls = None
        if style == "ro":
            def item_init(it):
                for k, f in enumerate(fields):
                    # alternate random / non-random fields: both kinds can be covered
                    setattr(it, f["n"], _mk_type(vsc, f, enums, rand=(k % 2 == 1)))
            self.item_cls = vsc.randobj(type(cgspec["name"] + "_item", (object,), {"__init__": item_init}))

        def mk_iff(cg, iff, env, it):
            if iff is None:
                return None
            name = iff["v"]
            if iff.get("call") or style == "lm":
                if iff["op"] == "nz":
                    return lambda: env[name]
                k = iff["k"]
                return lambda: env[name] == k
            base = getattr(it, name) if style == "ro" else getattr(cg, name)
            if iff["op"] == "nz":
                return base
            return (base == iff["k"])

        def cg_init(cg, variant, env, it=None):
            if style == "ws":
                cg.with_sample(dict((f["n"], _mk_type(vsc, f, enums)) for f in fields))
            o = spec.get("options") or {}
            for k in ("at_least", "weight", "auto_bin_max"):
                if k in o:
                    setattr(cg.options, k, o[k])
            var = spec["variants"][variant]
            for cp in var["cps"]:
                kw = {}
                if cp.get("bins"):
                    kw["bins"] = dict((n, _mk_bin(vsc, b)) for n, b in cp["bins"])
                if cp.get("ignore"):
                    kw["ignore_bins"] = dict((n, _mk_bin(vsc, b)) for n, b in cp["ignore"])
                if cp.get("illegal"):
                    kw["illegal_bins"] = dict((n, _mk_bin(vsc, b)) for n, b in cp["illegal"])
                if cp.get("options"):
                    kw["options"] = dict(cp["options"])
                src = cp["src"]
                if cp.get("lam") or style == "lm":
                    target = (lambda s: (lambda: env[s]))(src)
                    kw["cp_t"] = _mk_type(vsc, self.fdesc[src], enums)
                elif style == "ro":
                    target = getattr(it, src)
                else:
                    target = getattr(cg, src)
                # the iff expression is built after the target so that operands
                # reach the library's expression stack in source order
                if cp.get("iff") is not None:
                    kw["iff"] = mk_iff(cg, cp["iff"], env, it)
                setattr(cg, cp["name"], vsc.coverpoint(target, **kw))
            for cr in var.get("crosses", []):
                kw = {}
                if cr.get("options"):
                    kw["options"] = dict(cr["options"])
                tl = [getattr(cg, n) for n in cr["cps"]]
                if cr.get("iff") is not None:
                    kw["iff"] = mk_iff(cg, cr["iff"], env, it)
                setattr(cg, cr["name"], vsc.cross(tl, **kw))

        self.cls = vsc.covergroup(type(cgspec["name"], (object,), {"__init__": cg_init}))

    def new(self, variant=0):
        return LiveInst(self, variant)


class LiveInst(object):
    def __init__(self, lc, variant):
        self.lc = lc
        self.variant = variant
        self.env = {}
        for f in lc.fields + lc.ext:
            self.env[f["n"]] = self._conv(f, self._zero(f))
        self.item = lc.item_cls() if lc.item_cls is not None else None
        with quiet():
            if lc.style == "ro":
                self.cg = lc.cls(variant, self.env, self.item)
            else:
                self.cg = lc.cls(variant, self.env)
        self.model = self.cg.get_model()
        var = lc.spec["variants"][variant]
        self.cp_objs = [getattr(self.cg, c["name"]) for c in var["cps"]]
        self.cr_objs = [getattr(self.cg, c["name"]) for c in var.get("crosses", [])]

    def _zero(self, f):
        if f["t"] == "enum":
            return min(v for _, v in self.lc.spec["enums"][f["e"]])
        return 0

    def _conv(self, f, v):
        if f["t"] == "enum":
            return self.lc.enums[f["e"]](v)
        return int(v)

    def sample(self, values):
        lc = self.lc
        for f in lc.fields + lc.ext:
            if f["n"] in values:
                self.env[f["n"]] = self._conv(f, values[f["n"]])
        if lc.style == "ws":
            self.cg.sample(*[self._conv(f, values[f["n"]]) for f in lc.fields])
        elif lc.style == "ro":
            for f in lc.fields:
                setattr(self.item, f["n"], self._conv(f, values[f["n"]]))
            self.cg.sample()
        else:
            self.cg.sample()


# ----------------------------------------------------------------- observe
def read_model(m):
    """flat snapshot of a CovergroupModel through the getters the properties name"""
    cps = []
    for cp in m.coverpoint_l:
        nb, ni, nl = cp.get_n_bins(), cp.get_n_ignore_bins(), cp.get_n_illegal_bins()
        cps.append({
            "name": cp.name,
            "bins": [(cp.get_bin_name(i), cp.get_bin_hits(i)) for i in range(nb)],
            "ignore": [(cp.get_ignore_bin_name(i), cp.get_ignore_bin_hits(i)) for i in range(ni)],
            "illegal": [(cp.get_illegal_bin_name(i), cp.get_illegal_bin_hits(i)) for i in range(nl)],
        })
    crs = []
    for cr in m.cross_l:
        n = cr.get_n_bins()
        crs.append({"name": cr.name, "bins": [(cr.get_bin_name(i), cr.get_bin_hits(i)) for i in range(n)]})
    return {"cps": cps, "crs": crs}


def read_hits(m):
    """hit counts only (cheap per-sample observation)"""
    cps = []
    for cp in m.coverpoint_l:
        cps.append(([cp.get_bin_hits(i) for i in range(cp.get_n_bins())],
                    [cp.get_ignore_bin_hits(i) for i in range(cp.get_n_ignore_bins())],
                    [cp.get_illegal_bin_hits(i) for i in range(cp.get_n_illegal_bins())]))
    crs = [[cr.get_bin_hits(i) for i in range(cr.get_n_bins())] for cr in m.cross_l]
    return cps, crs


def reset_registry():
    from vsc.impl import ctor
    ctor.test_setup()


# ------------------------------------------------------------ pretty printer
def _iff_src(iff, style):
    if iff is None:
        return None
    if iff.get("call") or style == "lm":
        return "lambda: env[%r]" % iff["v"] if iff["op"] == "nz" else "lambda: env[%r] == %d" % (iff["v"], iff["k"])
    base = ("it." if style == "ro" else "self.") + iff["v"]
    return base if iff["op"] == "nz" else "(%s == %d)" % (base, iff["k"])


def _dict_src(pairs, ind):
    return "dict(\n" + "".join("%s    %s=%s,\n" % (ind, n, _bin_src(b)) for n, b in pairs) + ind + ")"


def to_source(cgspec):
    style = cgspec.get("style", "ws")
    L = []
    for en, members in (cgspec.get("enums") or {}).items():
        L.append("class %s(IntEnum):" % en)
        for k, v in members:
            L.append("    %s = %d" % (k, v))
    fields = cgspec.get("fields") or []
    if style == "ro":
        L.append("@vsc.randobj")
        L.append("class %s_item(object):" % cgspec["name"])
        L.append("    def __init__(self):")
        for k, f in enumerate(fields):
            L.append("        self.%s = %s" % (f["n"], _type_src(f, rand=(k % 2 == 1))))
    if cgspec.get("ext"):
        L.append("env = {%s}   # plain python variables read by lambdas" % ", ".join(
            "%r: <%s>" % (f["n"], _type_src(f)) for f in cgspec["ext"] + (fields if style == "lm" else [])))
    L.append("@vsc.covergroup")
    L.append("class %s(object):" % cgspec["name"])
    nvar = len(cgspec["variants"])
    L.append("    def __init__(self%s%s):" % (", variant" if nvar > 1 else "", ", it" if style == "ro" else ""))
    if style == "ws":
        L.append("        self.with_sample(dict(%s))" % ", ".join("%s=%s" % (f["n"], _type_src(f)) for f in fields))
    for k, v in sorted((cgspec.get("options") or {}).items()):
        L.append("        self.options.%s = %d" % (k, v))
    for vi, var in enumerate(cgspec["variants"]):
        ind = "        "
        if nvar > 1:
            L.append("        %s variant == %d:" % ("if" if vi == 0 else "elif", vi))
            ind += "    "
        for cp in var["cps"]:
            if cp.get("lam") or style == "lm":
                args = ["lambda: env[%r]" % cp["src"], "cp_t=" + _type_src(
                    [f for f in fields + (cgspec.get("ext") or []) if f["n"] == cp["src"]][0])]
            else:
                args = [("it." if style == "ro" else "self.") + cp["src"]]
            if cp.get("iff") is not None:
                args.append("iff=" + _iff_src(cp["iff"], style))
            if cp.get("bins"):
                args.append("bins=" + _dict_src(cp["bins"], ind))
            if cp.get("ignore"):
                args.append("ignore_bins=" + _dict_src(cp["ignore"], ind))
            if cp.get("illegal"):
                args.append("illegal_bins=" + _dict_src(cp["illegal"], ind))
            if cp.get("options"):
                args.append("options=dict(%s)" % ", ".join("%s=%d" % kv for kv in sorted(cp["options"].items())))
            L.append("%sself.%s = vsc.coverpoint(%s)" % (ind, cp["name"], ", ".join(args)))
        for cr in var.get("crosses", []):
            args = ["[%s]" % ", ".join("self." + n for n in cr["cps"])]
            if cr.get("iff") is not None:
                args.append("iff=" + _iff_src(cr["iff"], style))
            if cr.get("options"):
                args.append("options=dict(%s)" % ", ".join("%s=%d" % kv for kv in sorted(cr["options"].items())))
            L.append("%sself.%s = vsc.cross(%s)" % (ind, cr["name"], ", ".join(args)))
    return "\n".join(L)


def history_source(history, limit=12):
    out = []
    for ev in history[:limit]:
        if ev[0] == "new":
            out.append("i%d = %s(%s)" % (ev[1], ev[2], ev[3]))
        elif ev[0] == "sample":
            out.append("i%d.sample(%s)" % (ev[1], ", ".join("%s=%s" % kv for kv in sorted(ev[2].items()))))
        else:
            out.append(str(ev))
    if len(history) > limit:
        out.append("... (%d more events)" % (len(history) - limit))
    return "\n".join(out)


# ============================================================ spec generators
# Every generator draws only from the rng it is given (a case is reproducible
# from (seed, idx)).
ENUM_POOL = ["A", "B", "C", "D", "E", "F", "G", "H", "I", "J"]


def gen_field(rng, name, kinds=("bit", "bit", "int", "enum"), minw=1, maxw=8, enums=None, tag=""):
    """-> field descriptor; a new enum type is added to `enums` when needed"""
    t = rng.choice(kinds)
    if t == "enum":
        n = rng.randint(2, 8)
        vals = rng.sample(range(0, 24), n)
        if rng.random() < 0.3:
            vals = sorted(vals)
        en = "E%s%d" % (tag, len(enums))
        enums[en] = [[ENUM_POOL[i], v] for i, v in enumerate(vals)]
        return {"n": name, "t": "enum", "e": en}
    if t == "int":
        return {"n": name, "t": "int", "w": rng.randint(max(2, minw), maxw)}
    return {"n": name, "t": "bit", "w": rng.randint(minw, maxw)}


def field_values(f, enums):
    if f["t"] == "bit":
        return list(range(0, 1 << f["w"]))
    if f["t"] == "int":
        return list(range(-(1 << (f["w"] - 1)), 1 << (f["w"] - 1)))
    return sorted(v for _, v in enums[f["e"]])


def _rng_item(rng, lo, hi, pool=None):
    """one value or range inside [lo, hi]; ranges written as list or tuple"""
    if pool and rng.random() < 0.5:
        a = rng.choice(pool)
    else:
        a = rng.randint(lo, hi)
    if rng.random() < 0.4:
        return a
    span = rng.choice([0, 1, 1, 2, 3, 4, 7, max(1, (hi - lo) // 3), hi - lo])
    b = min(hi, a + span)
    return [a, b] if rng.random() < 0.7 else {"t": [a, b]}


def _lohi(it):
    if isinstance(it, dict):
        return it["t"][0], it["t"][1]
    if isinstance(it, list):
        return it[0], it[1]
    return it, it


def gen_items(rng, lo, hi, n, allow_out=False):
    """n items with the interesting relations: disjoint, adjacent, unordered,
    duplicated, overlapping, nested"""
    items = []
    for _ in range(n):
        r = rng.random()
        if items and r < 0.35:
            pl, ph = _lohi(rng.choice(items))
            k = rng.randrange(5)
            if k == 0:      # duplicate
                items.append(rng.choice(items))
                continue
            if k == 1 and ph < hi:      # adjacent above
                b = min(hi, ph + 1 + rng.choice([0, 1, 3]))
                items.append([ph + 1, b] if b > ph + 1 or rng.random() < 0.5 else ph + 1)
                continue
            if k == 2 and pl > lo:      # adjacent below
                a = max(lo, pl - 1 - rng.choice([0, 1, 3]))
                items.append([a, pl - 1] if a < pl - 1 or rng.random() < 0.5 else pl - 1)
                continue
            if k == 3 and ph > pl:      # nested
                a = rng.randint(pl, ph)
                b = rng.randint(a, ph)
                items.append([a, b] if rng.random() < 0.7 else a)
                continue
            if k == 4:                  # overlapping
                a = rng.randint(pl, ph)
                b = min(hi, ph + rng.choice([1, 2, 5]))
                items.append([a, b])
                continue
        items.append(_rng_item(rng, lo, hi))
    if allow_out and rng.random() < 0.08:
        items.append(rng.choice([hi + 1, [hi - 1 if hi - 1 >= lo else hi, hi + 2], hi + 3]))
    if rng.random() < 0.5:
        rng.shuffle(items)
    return items


def gen_regular_bins(rng, lo, hi, ndecl=None, allow_out=False, tvalues=None):
    """-> [[name, binspec]]: explicit bins and bin arrays over [lo, hi] (or over
    the listed type values for enums)"""
    from .covref import items_set
    ndecl = ndecl or rng.choice([1, 1, 2, 2, 3, 4])
    out = []
    for d in range(ndecl):
        if tvalues is not None:
            items = rng.sample(tvalues, rng.randint(1, min(4, len(tvalues))))
        else:
            items = gen_items(rng, lo, hi, rng.choice([1, 1, 2, 2, 3, 4]), allow_out)
        if rng.random() < 0.45:
            out.append(["b%d" % d, {"k": "bin", "items": items}])
        else:
            nv = len(items_set(items))
            r = rng.random()
            if r < 0.35:
                n = None
            elif r < 0.9:
                n = rng.randint(1, nv + 2)
            else:
                n = rng.choice([1, 2, nv, nv + 1])
            b = {"k": "array", "n": n, "items": items}
            if n is not None:
                b["nform"] = "int" if rng.random() < 0.25 else "list"
            out.append(["b%d" % d, b])
    return out


def gen_excludes(rng, lo, hi, regular, tvalues=None, p_all=0.04):
    """ignore / illegal bins cutting the regular bins at every position"""
    from .covref import items_set
    pool = set()
    for _, b in (regular or []):
        for it in b["items"]:
            l, h = _lohi(it)
            pool.update((l, h, l - 1, h + 1, (l + h) // 2))
    pool = sorted(v for v in pool if lo <= v <= hi) or None
    if tvalues is not None:
        pool = list(tvalues)
    ign, ill = [], []
    nign = rng.choice([0, 1, 1, 2])
    nill = rng.choice([0, 0, 1])
    for k in range(nign + nill):
        if regular and rng.random() < p_all:
            # remove every value of one declaration
            _, b = rng.choice(regular)
            l = min(_lohi(i)[0] for i in b["items"])
            h = max(_lohi(i)[1] for i in b["items"])
            items = [[l, h]] if rng.random() < 0.5 else sorted(items_set(b["items"]))[:40]
        elif tvalues is not None:
            items = rng.sample(tvalues, rng.randint(1, max(1, min(3, len(tvalues) - 1))))
        else:
            items = [_rng_item(rng, lo, hi, pool) for _ in range(rng.choice([1, 1, 2, 3]))]
        (ign if k < nign else ill).append(["%s%d" % ("ig" if k < nign else "il", k), {"k": "bin", "items": items}])
    return ign, ill


def gen_iff(rng, gate_fields, enums, callable_only=False):
    f = rng.choice(gate_fields)
    vals = field_values(f, enums)
    if f["t"] == "enum" or rng.random() < 0.5 or 0 not in vals:
        iff = {"v": f["n"], "op": "eq", "k": rng.choice(vals)}
    else:
        iff = {"v": f["n"], "op": "nz"}
    if callable_only or rng.random() < 0.35:
        iff["call"] = True
    return iff


def values_for(rng, fields, enums, pools=None):
    """a random assignment to all fields (biased to a small pool for repeats)"""
    out = {}
    for f in fields:
        if pools is not None and rng.random() < 0.5:
            out[f["n"]] = rng.choice(pools[f["n"]])
        else:
            out[f["n"]] = rng.choice(field_values(f, enums))
    return out


def force_iff(values, iff, want, fdesc, enums, rng):
    """make iff evaluate to `want` by changing its variable"""
    if iff is None:
        return want
    vals = field_values(fdesc[iff["v"]], enums)
    if iff["op"] == "nz":
        cand = [v for v in vals if (v != 0) == want]
    else:
        cand = [v for v in vals if (v == iff["k"]) == want]
    if not cand:
        return False
    values[iff["v"]] = rng.choice(cand)
    return True


def runs_to_items(rng, values, split=True):
    """ascending distinct values -> items (single values and [lo, hi] ranges)
    describing exactly that set; long runs are sometimes split into adjacent
    pieces so that an array becomes a collection of several sub-models"""
    items = []
    i = 0
    vs = sorted(values)
    while i < len(vs):
        j = i
        while j + 1 < len(vs) and vs[j + 1] == vs[j] + 1:
            j += 1
        lo, hi = vs[i], vs[j]
        if split and hi - lo >= 2 and rng.random() < 0.4:
            m = rng.randint(lo, hi - 1)
            pieces = [(lo, m), (m + 1, hi)]
        else:
            pieces = [(lo, hi)]
        for a, b in pieces:
            if a == b:
                items.append(a if rng.random() < 0.8 else [a, a])
            else:
                items.append([a, b] if rng.random() < 0.75 else {"t": [a, b]})
        i = j + 1
    return items


def gen_disjoint_bins(rng, tvalues, maxdecl=4):
    """pairwise disjoint declarations over ascending chunks of the type's values"""
    n = len(tvalues)
    k = rng.randint(1, min(maxdecl, n))
    cuts = sorted(rng.sample(range(1, n), k - 1)) if k > 1 else []
    chunks = [tvalues[a:b] for a, b in zip([0] + cuts, cuts + [n])]
    out = []
    for d, ch in enumerate(chunks):
        if len(chunks) > 1 and rng.random() < 0.15:
            continue                       # values that miss every bin
        keep = [v for v in ch if rng.random() > 0.2] or [ch[0]]
        r = rng.random()
        if r < 0.35:
            out.append(["b%d" % d, {"k": "bin", "items": runs_to_items(rng, keep)}])
        else:
            if r < 0.7:
                nb = None
            else:
                nb = rng.randint(1, len(keep) + 1)
            b = {"k": "array", "n": nb, "items": runs_to_items(rng, keep)}
            if nb is not None:
                b["nform"] = "list"
            out.append(["b%d" % d, b])
    if not out:
        out.append(["b0", {"k": "bin", "items": runs_to_items(rng, tvalues[:1])}])
    if rng.random() < 0.3:
        rng.shuffle(out)                   # declaration order != value order
    return out
