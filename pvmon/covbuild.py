"""Builds live pyvsc covergroups from the JSON-able specification described in
covref.py, drives them, reads them back through the model getters, and
pretty-prints a specification as pyvsc source text (evidence samples).

Sampling styles:
  "ws"  sample values are parameters of cg.sample(...) declared with with_sample(dict(...))
  "ro"  sample values are fields of a randobj passed to the constructor; cg.sample()
  "lm"  every coverpoint target is a lambda reading a plain python dict; cg.sample()
Independently of the style a coverpoint with "lam": true uses a lambda target
(cp_t=...) and an iff with "call": true is a callable.
"""
import enum

from .libstate import import_vsc, quiet


# ------------------------------------------------------------------ helpers
def _item_py(it):
    if isinstance(it, dict):
        return tuple(it["t"])
    if isinstance(it, (list, tuple)):
        return [it[0], it[1]]
    return int(it)


def _item_src(it):
    if isinstance(it, dict):
        return "(%d, %d)" % tuple(it["t"])
    if isinstance(it, (list, tuple)):
        return "[%d, %d]" % (it[0], it[1])
    return str(int(it))


def _pat_py(p):
    if isinstance(p, (list, tuple)):
        return (int(p[0]), int(p[1]))
    return str(p)


def _pat_src(p):
    if isinstance(p, (list, tuple)):
        return "(0x%x, 0x%x)" % (p[0], p[1])
    return repr(str(p))


def _mk_bin(vsc, b):
    k = b["k"]
    if k == "bin":
        return vsc.bin(*[_item_py(i) for i in b["items"]])
    if k == "array":
        n = b.get("n")
        if n is None:
            nb = []
        elif b.get("nform") == "int":
            nb = int(n)
        else:
            nb = [int(n)]
        return vsc.bin_array(nb, *[_item_py(i) for i in b["items"]])
    if k == "wild":
        return vsc.wildcard_bin(*[_pat_py(p) for p in b["pats"]])
    if k == "warray":
        n = b.get("n")
        return vsc.wildcard_bin_array([] if n is None else [int(n)], *[_pat_py(p) for p in b["pats"]])
    raise ValueError("unknown bin kind %r" % (k,))


def _bin_src(b):
    k = b["k"]
    if k == "bin":
        return "vsc.bin(%s)" % ", ".join(_item_src(i) for i in b["items"])
    if k == "array":
        n = b.get("n")
        nb = "[]" if n is None else (str(n) if b.get("nform") == "int" else "[%d]" % n)
        return "vsc.bin_array(%s, %s)" % (nb, ", ".join(_item_src(i) for i in b["items"]))
    if k == "wild":
        return "vsc.wildcard_bin(%s)" % ", ".join(_pat_src(p) for p in b["pats"])
    if k == "warray":
        n = b.get("n")
        return "vsc.wildcard_bin_array(%s, %s)" % ("[]" if n is None else "[%d]" % n,
                                                   ", ".join(_pat_src(p) for p in b["pats"]))
    return "?"


def _type_src(f, rand=False):
    if f["t"] == "bit":
        return "vsc.%sbit_t(%d)" % ("rand_" if rand else "", f["w"])
    if f["t"] == "int":
        return "vsc.%sint_t(%d)" % ("rand_" if rand else "", f["w"])
    return "vsc.%senum_t(%s)" % ("rand_" if rand else "", f["e"])


def make_enums(cgspec):
    return {n: enum.IntEnum(n, [(k, v) for k, v in members]) for n, members in (cgspec.get("enums") or {}).items()}


def _mk_type(vsc, f, enums, rand=False):
    if f["t"] == "bit":
        return (vsc.rand_bit_t if rand else vsc.bit_t)(f["w"])
    if f["t"] == "int":
        return (vsc.rand_int_t if rand else vsc.int_t)(f["w"])
    return (vsc.rand_enum_t if rand else vsc.enum_t)(enums[f["e"]])


# -------------------------------------------------------------------- build
class LiveClass(object):
    """one generated covergroup class (all its constructor variants)"""

    def __init__(self, cgspec):
        vsc = import_vsc()
        self.spec = cgspec
        self.enums = make_enums(cgspec)
        self.fields = list(cgspec.get("fields") or [])
        self.ext = list(cgspec.get("ext") or [])
        self.style = cgspec.get("style", "ws")
        self.fdesc = {f["n"]: f for f in self.fields + self.ext}
        enums = self.enums
        fields = self.fields
        style = self.style
        spec = cgspec
        self.item_cls = None
        if style == "ro":
            def item_init(it):
                for k, f in enumerate(fields):
                    # alternate random / non-random fields: both kinds can be covered
                    setattr(it, f["n"], _mk_type(vsc, f, enums, rand=(k % 2 == 1)))
            self.item_cls = vsc.randobj(type(cgspec["name"] + "_item", (object,), {"__init__": item_init}))

        def mk_iff(cg, iff, env, it):
            if iff is None:
                return None
            name = iff["v"]
            if iff.get("call") or style == "lm":
                if iff["op"] == "nz":
                    return lambda: env[name]
                k = iff["k"]
                return lambda: env[name] == k
            base = getattr(it, name) if style == "ro" else getattr(cg, name)
            if iff["op"] == "nz":
                return base
            return (base == iff["k"])

        def cg_init(cg, variant, env, it=None):
            nm = env.get("__name__")
            if nm:
                if env.get("__name_by__") == "set_name":
                    cg.set_name(nm)
                else:
                    cg.options.name = nm
            if style == "ws":
                cg.with_sample(dict((f["n"], _mk_type(vsc, f, enums)) for f in fields))
            o = spec.get("options") or {}
            for k in ("at_least", "weight", "auto_bin_max"):
                if k in o:
                    setattr(cg.options, k, o[k])
            var = spec["variants"][variant]
            for cp in var["cps"]:
                kw = {}
                if cp.get("bins"):
                    kw["bins"] = dict((n, _mk_bin(vsc, b)) for n, b in cp["bins"])
                if cp.get("ignore"):
                    kw["ignore_bins"] = dict((n, _mk_bin(vsc, b)) for n, b in cp["ignore"])
                if cp.get("illegal"):
                    kw["illegal_bins"] = dict((n, _mk_bin(vsc, b)) for n, b in cp["illegal"])
                if cp.get("options"):
                    kw["options"] = dict(cp["options"])
                src = cp["src"]
                if cp.get("lam") or style == "lm":
                    target = (lambda s: (lambda: env[s]))(src)
                    kw["cp_t"] = _mk_type(vsc, self.fdesc[src], enums)
                elif style == "ro":
                    target = getattr(it, src)
                else:
                    target = getattr(cg, src)
                # the iff expression is built after the target so that operands
                # reach the library's expression stack in source order
                if cp.get("iff") is not None:
                    kw["iff"] = mk_iff(cg, cp["iff"], env, it)
                setattr(cg, cp["name"], vsc.coverpoint(target, **kw))
            for cr in var.get("crosses", []):
                kw = {}
                if cr.get("options"):
                    kw["options"] = dict(cr["options"])
                tl = [getattr(cg, n) for n in cr["cps"]]
                if cr.get("iff") is not None:
                    kw["iff"] = mk_iff(cg, cr["iff"], env, it)
                setattr(cg, cr["name"], vsc.cross(tl, **kw))

        self.cls = vsc.covergroup(type(cgspec["name"], (object,), {"__init__": cg_init}))

    def new(self, variant=0, name=None, name_by="options"):
        return LiveInst(self, variant, name, name_by)


class LiveInst(object):
    def __init__(self, lc, variant, name=None, name_by="options"):
        self.lc = lc
        self.variant = variant
        self.env = {}
        if name:
            self.env["__name__"] = name
            self.env["__name_by__"] = name_by
        for f in lc.fields + lc.ext:
            self.env[f["n"]] = self._conv(f, self._zero(f))
        self.item = lc.item_cls() if lc.item_cls is not None else None
        with quiet():
            if lc.style == "ro":
                self.cg = lc.cls(variant, self.env, self.item)
            else:
                self.cg = lc.cls(variant, self.env)
        self.model = self.cg.get_model()
        var = lc.spec["variants"][variant]
        self.cp_objs = [getattr(self.cg, c["name"]) for c in var["cps"]]
        self.cr_objs = [getattr(self.cg, c["name"]) for c in var.get("crosses", [])]

    def _zero(self, f):
        if f["t"] == "enum":
            return min(v for _, v in self.lc.spec["enums"][f["e"]])
        return 0

    def _conv(self, f, v):
        if f["t"] == "enum":
            return self.lc.enums[f["e"]](v)
        return int(v)

    def sample(self, values):
        lc = self.lc
        for f in lc.fields + lc.ext:
            if f["n"] in values:
                self.env[f["n"]] = self._conv(f, values[f["n"]])
        if lc.style == "ws":
            self.cg.sample(*[self._conv(f, values[f["n"]]) for f in lc.fields])
        elif lc.style == "ro":
            for f in lc.fields:
                setattr(self.item, f["n"], self._conv(f, values[f["n"]]))
            self.cg.sample()
        else:
            self.cg.sample()


# ----------------------------------------------------------------- observe
def read_model(m):
    """flat snapshot of a CovergroupModel through the getters the properties name"""
    cps = []
    for cp in m.coverpoint_l:
        nb, ni, nl = cp.get_n_bins(), cp.get_n_ignore_bins(), cp.get_n_illegal_bins()
        cps.append({
            "name": cp.name,
            "bins": [(cp.get_bin_name(i), cp.get_bin_hits(i)) for i in range(nb)],
            "ignore": [(cp.get_ignore_bin_name(i), cp.get_ignore_bin_hits(i)) for i in range(ni)],
            "illegal": [(cp.get_illegal_bin_name(i), cp.get_illegal_bin_hits(i)) for i in range(nl)],
        })
    crs = []
    for cr in m.cross_l:
        n = cr.get_n_bins()
        crs.append({"name": cr.name, "bins": [(cr.get_bin_name(i), cr.get_bin_hits(i)) for i in range(n)]})
    return {"cps": cps, "crs": crs}


def read_hits(m):
    """hit counts only (cheap per-sample observation)"""
    cps = []
    for cp in m.coverpoint_l:
        cps.append(([cp.get_bin_hits(i) for i in range(cp.get_n_bins())],
                    [cp.get_ignore_bin_hits(i) for i in range(cp.get_n_ignore_bins())],
                    [cp.get_illegal_bin_hits(i) for i in range(cp.get_n_illegal_bins())]))
    crs = [[cr.get_bin_hits(i) for i in range(cr.get_n_bins())] for cr in m.cross_l]
    return cps, crs


def reset_registry():
    from vsc.impl import ctor
    ctor.test_setup()


# ------------------------------------------------------------ pretty printer
def _iff_src(iff, style):
    if iff is None:
        return None
    if iff.get("call") or style == "lm":
        return "lambda: env[%r]" % iff["v"] if iff["op"] == "nz" else "lambda: env[%r] == %d" % (iff["v"], iff["k"])
    base = ("it." if style == "ro" else "self.") + iff["v"]
    return base if iff["op"] == "nz" else "(%s == %d)" % (base, iff["k"])


def _dict_src(pairs, ind):
    return "dict(\n" + "".join("%s    %s=%s,\n" % (ind, n, _bin_src(b)) for n, b in pairs) + ind + ")"


def to_source(cgspec):
    style = cgspec.get("style", "ws")
    L = []
    for en, members in (cgspec.get("enums") or {}).items():
        L.append("class %s(IntEnum):" % en)
        for k, v in members:
            L.append("    %s = %d" % (k, v))
    fields = cgspec.get("fields") or []
    if style == "ro":
        L.append("@vsc.randobj")
        L.append("class %s_item(object):" % cgspec["name"])
        L.append("    def __init__(self):")
        for k, f in enumerate(fields):
            L.append("        self.%s = %s" % (f["n"], _type_src(f, rand=(k % 2 == 1))))
    if cgspec.get("ext"):
        L.append("env = {%s}   # plain python variables read by lambdas" % ", ".join(
            "%r: <%s>" % (f["n"], _type_src(f)) for f in cgspec["ext"] + (fields if style == "lm" else [])))
    L.append("@vsc.covergroup")
    L.append("class %s(object):" % cgspec["name"])
    nvar = len(cgspec["variants"])
    L.append("    def __init__(self%s%s):" % (", variant" if nvar > 1 else "", ", it" if style == "ro" else ""))
    if style == "ws":
        L.append("        self.with_sample(dict(%s))" % ", ".join("%s=%s" % (f["n"], _type_src(f)) for f in fields))
    for k, v in sorted((cgspec.get("options") or {}).items()):
        L.append("        self.options.%s = %d" % (k, v))
    for vi, var in enumerate(cgspec["variants"]):
        ind = "        "
        if nvar > 1:
            L.append("        %s variant == %d:" % ("if" if vi == 0 else "elif", vi))
            ind += "    "
        for cp in var["cps"]:
            if cp.get("lam") or style == "lm":
                args = ["lambda: env[%r]" % cp["src"], "cp_t=" + _type_src(
                    [f for f in fields + (cgspec.get("ext") or []) if f["n"] == cp["src"]][0])]
            else:
                args = [("it." if style == "ro" else "self.") + cp["src"]]
            if cp.get("iff") is not None:
                args.append("iff=" + _iff_src(cp["iff"], style))
            if cp.get("bins"):
                args.append("bins=" + _dict_src(cp["bins"], ind))
            if cp.get("ignore"):
                args.append("ignore_bins=" + _dict_src(cp["ignore"], ind))
            if cp.get("illegal"):
                args.append("illegal_bins=" + _dict_src(cp["illegal"], ind))
            if cp.get("options"):
                args.append("options=dict(%s)" % ", ".join("%s=%d" % kv for kv in sorted(cp["options"].items())))
            L.append("%sself.%s = vsc.coverpoint(%s)" % (ind, cp["name"], ", ".join(args)))
        for cr in var.get("crosses", []):
            args = ["[%s]" % ", ".join("self." + n for n in cr["cps"])]
            if cr.get("iff") is not None:
                args.append("iff=" + _iff_src(cr["iff"], style))
            if cr.get("options"):
                args.append("options=dict(%s)" % ", ".join("%s=%d" % kv for kv in sorted(cr["options"].items())))
            L.append("%sself.%s = vsc.cross(%s)" % (ind, cr["name"], ", ".join(args)))
    return "\n".join(L)


def history_source(history, cgs=None, limit=12):
    out = []
    for ev in history[:limit]:
        if ev[0] == "new":
            out.append("i%d = %s(variant=%d)%s" % (ev[1], cgs[ev[2]]["name"] if cgs else "cg#%d" % ev[2], ev[3],
                                                   "  # named %r via %s" % (ev[4], ev[5]) if len(ev) > 4 and ev[4] else ""))
        elif ev[0] == "sample":
            out.append("i%d.sample(%s)" % (ev[1], ", ".join("%s=%s" % kv for kv in sorted(ev[2].items()))))
        else:
            out.append(str(ev))
    if len(history) > limit:
        out.append("... (%d more events)" % (len(history) - limit))
    return "\n".join(out)


# ============================================================ spec generators
# Every generator draws only from the rng it is given (a case is reproducible
# from (seed, idx)).
ENUM_POOL = ["A", "B", "C", "D", "E", "F", "G", "H", "I", "J"]


def gen_field(rng, name, kinds=("bit", "bit", "int", "enum"), minw=1, maxw=8, enums=None, tag=""):
    """-> field descriptor; a new enum type is added to `enums` when needed"""
    t = rng.choice(kinds)
    if t == "enum":
        n = rng.randint(2, 8)
        vals = rng.sample(range(0, 24), n)
        if rng.random() < 0.3:
            vals = sorted(vals)
        en = "E%s%d" % (tag, len(enums))
        enums[en] = [[ENUM_POOL[i], v] for i, v in enumerate(vals)]
        return {"n": name, "t": "enum", "e": en}
    if t == "int":
        return {"n": name, "t": "int", "w": rng.randint(max(2, minw), maxw)}
    return {"n": name, "t": "bit", "w": rng.randint(minw, maxw)}


def field_values(f, enums):
    if f["t"] == "bit":
        return list(range(0, 1 << f["w"]))
    if f["t"] == "int":
        return list(range(-(1 << (f["w"] - 1)), 1 << (f["w"] - 1)))
    return sorted(v for _, v in enums[f["e"]])


def _rng_item(rng, lo, hi, pool=None):
    """one value or range inside [lo, hi]; ranges written as list or tuple"""
    if pool and rng.random() < 0.5:
        a = rng.choice(pool)
    else:
        a = rng.randint(lo, hi)
    if rng.random() < 0.4:
        return a
    span = rng.choice([0, 1, 1, 2, 3, 4, 7, max(1, (hi - lo) // 3), hi - lo])
    b = min(hi, a + span)
    return [a, b] if rng.random() < 0.7 else {"t": [a, b]}


def _lohi(it):
    if isinstance(it, dict):
        return it["t"][0], it["t"][1]
    if isinstance(it, list):
        return it[0], it[1]
    return it, it


def gen_items(rng, lo, hi, n, allow_out=False):
    """n items with the interesting relations: disjoint, adjacent, unordered,
    duplicated, overlapping, nested"""
    items = []
    for _ in range(n):
        r = rng.random()
        if items and r < 0.35:
            pl, ph = _lohi(rng.choice(items))
            k = rng.randrange(5)
            if k == 0:      # duplicate
                items.append(rng.choice(items))
                continue
            if k == 1 and ph < hi:      # adjacent above
                b = min(hi, ph + 1 + rng.choice([0, 1, 3]))
                items.append([ph + 1, b] if b > ph + 1 or rng.random() < 0.5 else ph + 1)
                continue
            if k == 2 and pl > lo:      # adjacent below
                a = max(lo, pl - 1 - rng.choice([0, 1, 3]))
                items.append([a, pl - 1] if a < pl - 1 or rng.random() < 0.5 else pl - 1)
                continue
            if k == 3 and ph > pl:      # nested
                a = rng.randint(pl, ph)
                b = rng.randint(a, ph)
                items.append([a, b] if rng.random() < 0.7 else a)
                continue
            if k == 4:                  # overlapping
                a = rng.randint(pl, ph)
                b = min(hi, ph + rng.choice([1, 2, 5]))
                items.append([a, b])
                continue
        items.append(_rng_item(rng, lo, hi))
    if allow_out and rng.random() < 0.08:
        items.append(rng.choice([hi + 1, [hi - 1 if hi - 1 >= lo else hi, hi + 2], hi + 3]))
    if rng.random() < 0.5:
        rng.shuffle(items)
    return items


def gen_regular_bins(rng, lo, hi, ndecl=None, allow_out=False, tvalues=None):
    """-> [[name, binspec]]: explicit bins and bin arrays over [lo, hi] (or over
    the listed type values for enums)"""
    from .covref import items_set
    ndecl = ndecl or rng.choice([1, 1, 2, 2, 3, 4])
    out = []
    for d in range(ndecl):
        if tvalues is not None:
            items = rng.sample(tvalues, rng.randint(1, min(4, len(tvalues))))
        else:
            items = gen_items(rng, lo, hi, rng.choice([1, 1, 2, 2, 3, 4]), allow_out)
        if rng.random() < 0.45:
            out.append(["b%d" % d, {"k": "bin", "items": items}])
        else:
            nv = len(items_set(items))
            r = rng.random()
            if r < 0.35:
                n = None
            elif r < 0.9:
                n = rng.randint(1, nv + 2)
            else:
                n = rng.choice([1, 2, nv, nv + 1])
            b = {"k": "array", "n": n, "items": items}
            if n is not None:
                b["nform"] = "int" if rng.random() < 0.25 else "list"
            out.append(["b%d" % d, b])
    return out


def gen_excludes(rng, lo, hi, regular, tvalues=None, p_all=0.04):
    """ignore / illegal bins cutting the regular bins at every position"""
    from .covref import items_set
    pool = set()
    regular = [x for x in (regular or []) if "items" in x[1]]
    for _, b in regular:
        for it in b["items"]:
            l, h = _lohi(it)
            pool.update((l, h, l - 1, h + 1, (l + h) // 2))
    pool = sorted(v for v in pool if lo <= v <= hi) or None
    if tvalues is not None:
        pool = list(tvalues)
    ign, ill = [], []
    nign = rng.choice([0, 1, 1, 2])
    nill = rng.choice([0, 0, 1])
    for k in range(nign + nill):
        if regular and rng.random() < p_all:
            # remove every value of one declaration
            _, b = rng.choice(regular)
            l = min(_lohi(i)[0] for i in b["items"])
            h = max(_lohi(i)[1] for i in b["items"])
            items = [[l, h]] if rng.random() < 0.5 else sorted(items_set(b["items"]))[:40]
        elif tvalues is not None:
            items = rng.sample(tvalues, rng.randint(1, max(1, min(3, len(tvalues) - 1))))
        else:
            items = [_rng_item(rng, lo, hi, pool) for _ in range(rng.choice([1, 1, 2, 3]))]
        (ign if k < nign else ill).append(["%s%d" % ("ig" if k < nign else "il", k), {"k": "bin", "items": items}])
    return ign, ill


def gen_iff(rng, gate_fields, enums, callable_only=False):
    f = rng.choice(gate_fields)
    vals = field_values(f, enums)
    if f["t"] == "enum" or rng.random() < 0.5 or 0 not in vals:
        iff = {"v": f["n"], "op": "eq", "k": rng.choice(vals)}
    else:
        iff = {"v": f["n"], "op": "nz"}
    if callable_only or rng.random() < 0.35:
        iff["call"] = True
    return iff


def values_for(rng, fields, enums, pools=None):
    """a random assignment to all fields (biased to a small pool for repeats)"""
    out = {}
    for f in fields:
        if pools is not None and rng.random() < 0.5:
            out[f["n"]] = rng.choice(pools[f["n"]])
        else:
            out[f["n"]] = rng.choice(field_values(f, enums))
    return out


def force_iff(values, iff, want, fdesc, enums, rng):
    """make iff evaluate to `want` by changing its variable"""
    if iff is None:
        return want
    vals = field_values(fdesc[iff["v"]], enums)
    if iff["op"] == "nz":
        cand = [v for v in vals if (v != 0) == want]
    else:
        cand = [v for v in vals if (v == iff["k"]) == want]
    if not cand:
        return False
    values[iff["v"]] = rng.choice(cand)
    return True


def runs_to_items(rng, values, split=True):
    """ascending distinct values -> items (single values and [lo, hi] ranges)
    describing exactly that set; long runs are sometimes split into adjacent
    pieces so that an array becomes a collection of several sub-models"""
    items = []
    i = 0
    vs = sorted(values)
    while i < len(vs):
        j = i
        while j + 1 < len(vs) and vs[j + 1] == vs[j] + 1:
            j += 1
        lo, hi = vs[i], vs[j]
        if split and hi - lo >= 2 and rng.random() < 0.4:
            m = rng.randint(lo, hi - 1)
            pieces = [(lo, m), (m + 1, hi)]
        else:
            pieces = [(lo, hi)]
        for a, b in pieces:
            if a == b:
                items.append(a if rng.random() < 0.8 else [a, a])
            else:
                items.append([a, b] if rng.random() < 0.75 else {"t": [a, b]})
        i = j + 1
    return items


def gen_disjoint_bins(rng, tvalues, maxdecl=4):
    """pairwise disjoint declarations over ascending chunks of the type's values"""
    n = len(tvalues)
    k = rng.randint(1, min(maxdecl, n))
    cuts = sorted(rng.sample(range(1, n), k - 1)) if k > 1 else []
    chunks = [tvalues[a:b] for a, b in zip([0] + cuts, cuts + [n])]
    out = []
    for d, ch in enumerate(chunks):
        if len(chunks) > 1 and rng.random() < 0.15:
            continue                       # values that miss every bin
        keep = [v for v in ch if rng.random() > 0.2] or [ch[0]]
        r = rng.random()
        if r < 0.35:
            out.append(["b%d" % d, {"k": "bin", "items": runs_to_items(rng, keep)}])
        else:
            if r < 0.7:
                nb = None
            else:
                nb = rng.randint(1, len(keep) + 1)
            b = {"k": "array", "n": nb, "items": runs_to_items(rng, keep)}
            if nb is not None:
                b["nform"] = "list"
            out.append(["b%d" % d, b])
    if not out:
        out.append(["b0", {"k": "bin", "items": runs_to_items(rng, tvalues[:1])}])
    if rng.random() < 0.3:
        rng.shuffle(out)                   # declaration order != value order
    return out


# ------------------------------------------------------- finding predicates
from .covref import item_values  # noqa: E402
def _compact(items):
    rl = sorted(([item_values(i)[0], item_values(i)[-1]] for i in items), key=lambda e: e[0])
    out = []
    for r in rl:
        if out and out[-1][1] >= r[0]:
            out[-1][1] = max(out[-1][1], r[1])
        else:
            out.append(list(r))
    return out


def pop0_early(decl_ranges, excl_ranges):
    """Mechanism predicate of finding 'exclude-pops-first-range' (DESIGN #22):
    while the excluded ranges (ascending) are applied to the FIRST range of a
    declaration, one of them - not the last one - covers all that is left of it.
    The library then continues that pass with list index -1."""
    if not decl_ranges or not excl_ranges:
        return False
    lo, hi = decl_ranges[0]
    for k, (xl, xh) in enumerate(excl_ranges):
        if xl <= lo and hi <= xh:
            return k < len(excl_ranges) - 1
        if xl > lo and xh < hi:
            hi = xl - 1
        elif lo < xl <= hi:
            hi = xl - 1
        elif lo <= xh < hi:
            lo = xh + 1
    return False


def pop0_decls(rcp):
    """names of the declarations of a reference coverpoint that satisfy pop0_early"""
    cp = rcp.spec
    ex_items = []
    for _, b in (cp.get("ignore") or []) + (cp.get("illegal") or []):
        ex_items.extend(b["items"])
    ex = _compact(ex_items)
    if not ex:
        return []
    out = []
    if not cp.get("bins"):
        if rcp.fdesc["t"] == "enum":
            dr = [[v, v] for v in rcp.tvalues]
        else:
            dr = [[rcp.tvalues[0], rcp.tvalues[-1]]]
        if pop0_early(dr, ex):
            out.append(None)
    else:
        for n, b in cp["bins"]:
            if b["k"] in ("bin", "array") and pop0_early(_compact(b["items"]), ex):
                out.append(n)
    return out




# ================================================= populations (C12 / C13)
def _gen_pop_cp(rng, name, f, enums, gates, style, allow_excl=True):
    """a coverpoint with at least one bin and no 'pop0' exclusion pattern"""
    from . import covref
    tv = field_values(f, enums)
    for attempt in range(6):
        cp = {"name": name, "src": f["n"]}
        r = rng.random()
        if r < 0.25:
            cp["bins"] = None
            if f["t"] != "enum":
                cp["options"] = {"auto_bin_max": rng.choice([1, 2, 3, 4, 64])}
        elif r < 0.7:
            cp["bins"] = gen_disjoint_bins(rng, tv, maxdecl=3)
        else:
            cp["bins"] = gen_regular_bins(rng, tv[0], tv[-1], ndecl=rng.choice([1, 2]),
                                          tvalues=tv if f["t"] == "enum" else None)
        if allow_excl and attempt < 4 and rng.random() < 0.4:
            ign, ill = gen_excludes(rng, tv[0], tv[-1], cp["bins"], tvalues=tv if f["t"] == "enum" else None, p_all=0.0)
            if ign:
                cp["ignore"] = ign
            if ill:
                cp["illegal"] = ill
        if rng.random() < 0.3:
            cp["iff"] = gen_iff(rng, gates, enums, callable_only=(style == "lm"))
        probe = {"enums": enums, "fields": [f] + gates, "ext": [], "options": {}}
        rcp = covref.RefCP(cp, probe)
        if rcp.bins and not pop0_decls(rcp) and len(rcp.bins) <= 16:
            return cp
    return {"name": name, "src": f["n"], "bins": [["b0", {"k": "array", "n": None, "items": [[tv[0], tv[min(2, len(tv) - 1)]]]}]]}


def gen_population(rng, idx, tag, mode):
    """1-3 covergroup classes with 1-3 constructor variants each.
    mode: "plain" | "al" (at_least > 1 somewhere) | "w" (non-uniform weights) | "both" """
    from . import covref
    ncls = rng.choice([1, 1, 2, 3])
    cgs = []
    for c in range(ncls):
        style = rng.choice(["ws", "ws", "ro", "lm"])
        enums = {}
        gates = [{"n": "g0", "t": "bit", "w": rng.choice([1, 1, 2])}]
        nf = rng.choice([1, 2, 2, 3])
        fields = [gen_field(rng, "f%d" % k, kinds=("bit", "bit", "int", "enum"), minw=1, maxw=rng.choice([2, 3, 3, 4]),
                            enums=enums, tag="%s%d_%d_" % (tag, idx, c)) for k in range(nf)]
        for en in enums:
            enums[en] = enums[en][:5]
        cps = [_gen_pop_cp(rng, "cp%d" % k, fields[k], enums, gates, style) for k in range(nf)]
        crosses = []
        if nf >= 2 and rng.random() < 0.45:
            sel = rng.sample(range(nf), 2)
            cr = {"name": "x0", "cps": ["cp%d" % i for i in sel]}
            if rng.random() < 0.3:
                cr["iff"] = gen_iff(rng, gates, enums, callable_only=(style == "lm"))
            crosses.append(cr)
        options = {}
        items = cps + crosses
        if mode in ("al", "both"):
            k = rng.randrange(3)
            if k == 0:
                options["at_least"] = rng.choice([2, 3])
            elif k == 1:
                options["at_least"] = rng.choice([2, 3])
                it = rng.choice(items)
                it.setdefault("options", {})["at_least"] = rng.choice([1, 1, 2, 4])
            else:
                it = rng.choice(items)
                it.setdefault("options", {})["at_least"] = rng.choice([2, 3])
        if mode in ("w", "both"):
            if len(items) < 2:
                # a second coverpoint so that weights can differ
                cps.append(_gen_pop_cp(rng, "cp%d" % nf, fields[0], enums, gates, style))
                items = cps + crosses
            ws = [rng.choice([1, 2, 5]) for _ in items]
            if len(set(ws)) == 1:
                ws[0] = 5 if ws[0] != 5 else 1
            for it, w in zip(items, ws):
                if w != 1 or rng.random() < 0.5:
                    it.setdefault("options", {})["weight"] = w
        elif rng.random() < 0.1:
            options["weight"] = rng.choice([2, 5])      # covergroup-level weight, uniform for its items
        allf = fields + gates
        cg = {"name": "cg_%s%d_%d" % (tag, idx, c), "style": style, "enums": enums,
              "fields": [] if style == "lm" else allf, "ext": allf if style == "lm" else [],
              "options": options, "variants": [{"cps": cps, "crosses": crosses}]}
        # ---- further constructor variants: each must yield a different set of bins
        keys = {covref.RefShape(cg, 0).value_key}
        for v in range(rng.choice([0, 0, 1, 1, 2])):
            for attempt in range(5):
                import copy
                var = copy.deepcopy(cg["variants"][0])
                k = rng.randrange(3)
                ci = rng.randrange(len(var["cps"]))
                old = var["cps"][ci]
                f = [x for x in allf if x["n"] == old["src"]][0]
                if k == 0:
                    new = _gen_pop_cp(rng, old["name"], f, enums, gates, style)
                    for key in ("iff",):
                        new.pop(key, None)
                        if key in old:
                            new[key] = old[key]
                    oo = dict(old.get("options") or {})
                    no = dict(new.get("options") or {})
                    for key in ("at_least", "weight"):
                        no.pop(key, None)
                        if key in oo:
                            no[key] = oo[key]
                    if no:
                        new["options"] = no
                    else:
                        new.pop("options", None)
                    var["cps"][ci] = new
                elif k == 1:
                    # only the ignore / illegal bins differ: a value outside every regular bin
                    probe = covref.RefCP(old, cg)
                    inbins = set()
                    for _, s in probe.bins:
                        inbins |= s
                    free = [x for x in probe.tvalues if x not in inbins and x not in probe.excluded]
                    if not free or not old.get("bins"):
                        continue
                    which = rng.choice(["ignore", "illegal"])
                    lst = list(old.get(which) or [])
                    lst.append(["%sv%d" % (which[:2], v), {"k": "bin", "items": [rng.choice(free)]}])
                    old[which] = lst
                else:
                    if var["crosses"] and rng.random() < 0.5:
                        var["crosses"] = []
                    elif len(var["cps"]) >= 2 and not var["crosses"]:
                        var["crosses"] = [{"name": "x0", "cps": [var["cps"][0]["name"], var["cps"][1]["name"]]}]
                    else:
                        continue
                cg["variants"].append(var)
                try:
                    sh = covref.RefShape(cg, len(cg["variants"]) - 1)
                    bad = sh.value_key in keys or any(not c.bins or pop0_decls(c) for c in sh.cps)
                except Exception:
                    bad = True
                if bad:
                    cg["variants"].pop()
                    continue
                keys.add(sh.value_key)
                break
        cgs.append(cg)
    return cgs


def gen_history(rng, cgs, nsamp=None, ninst=None):
    """events: ["new", inst#, cg#, variant] / ["sample", inst#, values]"""
    ninst = ninst or rng.choice([1, 2, 2, 3, 4, 6])
    nsamp = nsamp or rng.choice([20, 40, 80, 150])
    births = sorted([0] + [rng.randrange(0, max(1, nsamp // 2)) for _ in range(ninst - 1)])
    ev = []
    insts = []
    pools = [{f["n"]: [rng.choice(field_values(f, cg["enums"])) for _ in range(3)] for f in cg["fields"] + cg["ext"]}
             for cg in cgs]
    focus = None
    for t in range(nsamp):
        while births and births[0] <= t:
            births.pop(0)
            ci = rng.randrange(len(cgs))
            # prefer re-using (class, variant) pairs so that types get several instances
            if insts and rng.random() < 0.55:
                ci, v = rng.choice(insts)
            else:
                v = rng.randrange(len(cgs[ci]["variants"]))
            insts.append((ci, v))
            ev.append(["new", len(insts) - 1, ci, v])
        if focus is None or rng.random() < 0.5:
            focus = rng.randrange(len(insts))
        ci = insts[focus][0]
        cg = cgs[ci]
        ev.append(["sample", focus, values_for(rng, cg["fields"] + cg["ext"], cg["enums"],
                                              pools[ci] if rng.random() < 0.6 else None)])
    return ev


class LiveWorld(object):
    """the live covergroups of a case side by side with the reference World"""

    def __init__(self, cgs):
        from . import covref
        self.cgs = cgs
        self.ref = covref.World(cgs)
        self.classes = [None] * len(cgs)
        self.insts = []

    def new(self, cgi, variant, name=None, name_by="options"):
        if self.classes[cgi] is None:
            self.classes[cgi] = LiveClass(self.cgs[cgi])
        li = self.classes[cgi].new(variant, name, name_by)
        self.insts.append(li)
        self.ref.new_inst(cgi, variant)
        return len(self.insts) - 1

    def sample(self, i, values):
        self.insts[i].sample(values)
        return self.ref.sample(i, values)

    @staticmethod
    def _diff(m, t):
        cps, crs = read_hits(m)
        out = []
        if len(cps) != len(t.cp) or len(crs) != len(t.cr):
            return ["item count: %d coverpoints / %d crosses, reference %d / %d" % (len(cps), len(crs), len(t.cp), len(t.cr))]
        for ci, (b, g, l) in enumerate(cps):
            for what, got, exp in (("bins", b, t.cp[ci]), ("ignore", g, t.ign[ci]), ("illegal", l, t.ill[ci])):
                if got != exp:
                    out.append("%s %s: library %s reference %s" % (t.shape.cps[ci].name, what, got, exp))
        for xi, got in enumerate(crs):
            if got != t.cr[xi]:
                d = [(i, a, b) for i, (a, b) in enumerate(zip(got, t.cr[xi])) if a != b][:6]
                out.append("%s: (bin, library, reference) %s%s" % (t.shape.crosses[xi].name, d,
                                                                 "" if len(got) == len(t.cr[xi]) else " LENGTH %d vs %d" % (len(got), len(t.cr[xi]))))
        return out

    def diff_inst(self, i):
        return self._diff(self.insts[i].model, self.ref.insts[i][2])

    def diff_type(self, key):
        members = self.ref.insts_of(key)
        return self._diff(self.insts[members[0]].model.type_cg, self.ref.type_tally(key))

    def partition_diff(self):
        out = []
        n = len(self.insts)
        for i in range(n):
            for j in range(i + 1, n):
                same_ref = self.ref.type_key(i) == self.ref.type_key(j)
                same_lib = self.insts[i].model.type_cg is self.insts[j].model.type_cg
                if same_ref and not same_lib:
                    out.append(("type-split", "instances i%d and i%d have the same set of bins but different type covergroups" % (i, j), (i, j)))
                if same_lib and not same_ref:
                    out.append(("types-merged", "instances i%d and i%d have different sets of bins but share a type covergroup" % (i, j), (i, j)))
        for key in self.ref.type_keys:
            members = self.ref.insts_of(key)
            tcg = self.insts[members[0]].model.type_cg
            if tcg is None:
                out.append(("no-type", "instance i%d has no type covergroup" % members[0]))
                continue
            want = [self.insts[i].model for i in members]
            if len(tcg.cg_inst_l) != len(want) or any(a is not b for a, b in zip(tcg.cg_inst_l, want)):
                out.append(("type-inst-list", "type of i%d lists %d instances, expected %d in creation order" % (
                    members[0], len(tcg.cg_inst_l), len(want))))
        return out


def _decl_models(rcp):
    """For the mechanism predicate of finding 'registry-collection-length-unchecked':
    per surviving declaration of a reference coverpoint -> (name, is_collection,
    number of sub-models, tuple of value sets).  A declaration is a *collection*
    in the library when it is a bin array with a count, a bin array without a
    count whose (compacted, trimmed) value list has more than one run, or
    numeric auto-bins; with a count n < #values the collection has n sub-models,
    otherwise one per run."""
    cp = rcp.spec
    excl = rcp.excluded

    def nruns(ranges):
        n = 0
        for lo, hi in ranges:
            prev_in = False
            for v in range(lo, hi + 1):
                cur = v not in excl
                if cur and not prev_in:
                    n += 1
                prev_in = cur
        return n
    out = []
    if not cp.get("bins"):
        sets = tuple(tuple(sorted(s)) for _, s in rcp.bins)
        if rcp.fdesc["t"] == "enum":
            out.append((rcp.name, False, len(sets), sets))
        else:
            nv = sum(len(s) for s in sets)
            runs = nruns([[rcp.tvalues[0], rcp.tvalues[-1]]])
            out.append((rcp.name, True, rcp.auto_bin_max if rcp.auto_bin_max < nv else runs, sets))
        return out
    for name, b in cp["bins"]:
        sets = tuple(tuple(sorted(s)) for (n, s), o in zip(rcp.bins, rcp.origin) if o[0] == name)
        if not sets:
            continue
        if b["k"] == "bin":
            out.append((name, False, 1, sets))
        elif b["k"] == "array":
            runs = nruns(_compact(b["items"]))
            nv = sum(len(s) for s in sets)
            n = b.get("n")
            if n is None:
                out.append((name, runs > 1, runs, sets))
            else:
                out.append((name, True, n if n < nv else runs, sets))
        else:
            out.append((name, False, len(sets), sets))
    return out


def collection_len_unchecked(sh_a, sh_b):
    """True iff two shapes of one class differ ONLY in same-named collection
    declarations that have different numbers of sub-models (the library's
    CoverpointBinCollectionModel.equals skips the element comparison when the
    lengths differ and keeps 'equal')."""
    if sh_a.key[0] != sh_b.key[0] or sh_a.key[2] != sh_b.key[2] or len(sh_a.cps) != len(sh_b.cps):
        return False
    found = False
    for a, b in zip(sh_a.cps, sh_b.cps):
        if a.name != b.name or a.shape()[2:] != b.shape()[2:]:
            return False
        da, db = _decl_models(a), _decl_models(b)
        if len(da) != len(db):
            return False
        for x, y in zip(da, db):
            if x == y:
                continue
            if x[0] == y[0] and x[1] and y[1] and x[2] != y[2]:
                found = True
            else:
                return False
    return found


def _lib_runs(ranges, excl):
    """runs [lo, hi] of the values the library keeps of compacted ranges after
    trimming the excluded values (adjacent ranges are not merged)"""
    out = []
    for lo, hi in ranges:
        start = None
        for v in range(lo, hi + 2):
            inside = v <= hi and v not in excl
            if inside and start is None:
                start = v
            if not inside and start is not None:
                out.append([start, v - 1])
                start = None
    return out


def mixed_run_collection(rcp):
    """Mechanism predicate of finding 'duplicate-bin-names': the coverpoint has a
    bin array (or numeric auto-bins) that is NOT partitioned (no count, or count
    >= number of values) and whose value list consists of >= 2 runs of which at
    least one is a single value and at least one is longer.  The library names
    single-value elements by a running index local to the array and elements of
    a longer run by their flat index in the whole coverpoint, so two elements
    can get the same name."""
    cp = rcp.spec

    def mixed(runs):
        return len(runs) >= 2 and any(a == b for a, b in runs) and any(a != b for a, b in runs)
    if not cp.get("bins"):
        if rcp.fdesc["t"] == "enum":
            return False
        runs = _lib_runs([[rcp.tvalues[0], rcp.tvalues[-1]]], rcp.excluded)
        nv = sum(b - a + 1 for a, b in runs)
        return rcp.auto_bin_max >= nv and mixed(runs)
    for name, b in cp["bins"]:
        if b["k"] != "array":
            continue
        runs = _lib_runs(_compact(b["items"]), rcp.excluded)
        nv = sum(h - l + 1 for l, h in runs)
        if (b.get("n") is None or b["n"] >= nv) and mixed(runs):
            return True
    return False


def effective_weights(shape):
    """weights as the library resolves them: item option, else covergroup option, else 1"""
    cgw = (shape.cgspec.get("options") or {}).get("weight")

    def w(spec):
        o = spec.get("options") or {}
        return o.get("weight", cgw if cgw is not None else 1)
    return [w(c.spec) for c in shape.cps], [w(c.spec) for c in shape.crosses]


def pick_finding(prop, mechs, priority):
    """One result can carry one finding key.  A case that exhibits several known
    mechanisms is only suppressible when ALL of them are listed: return the first
    unlisted one if there is any, else the first by priority."""
    from . import common
    if not mechs:
        return None
    try:
        known = common.open_findings(prop)
    except Exception:
        known = {}
    ordered = [m for m in priority if m in mechs] + sorted(m for m in mechs if m not in priority)
    for m in ordered:
        if m not in known:
            return m
    return ordered[0]
