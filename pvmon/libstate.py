"""Access to the library's process-wide construction state (the state the
properties themselves name under observe_at): idle check and reset."""
import contextlib
import io
import sys

_vsc = None


def import_vsc():
    global _vsc
    if _vsc is None:
        import vsc
        _vsc = vsc
    return _vsc


def stacks():
    from vsc.impl import ctor, expr_mode
    return {
        "ctor.expr_l": ctor.expr_l,
        "ctor.constraint_scope_stack": ctor.constraint_scope_stack,
        "ctor.srcinfo_mode_s": ctor.srcinfo_mode_s,
        "ctor.foreach_arr_s": ctor.foreach_arr_s,
        "expr_mode._expr_mode": expr_mode._expr_mode,
        "expr_mode._raw_mode": expr_mode._raw_mode,
    }


def non_idle():
    """names (with depth) of the shared stacks that are not empty"""
    return {k: len(v) for k, v in stacks().items() if len(v) != 0}


def reset_lib_state():
    """Harness-side clean-up after a case that raised, so that a C16 defect
    cannot cascade into false alarms of other properties."""
    try:
        for v in stacks().values():
            del v[:]
    except Exception:
        pass


@contextlib.contextmanager
def quiet():
    """The library prints diagnostics on SolveFailure; keep worker logs small."""
    old = sys.stdout
    sys.stdout = io.StringIO()
    try:
        yield
    finally:
        sys.stdout = old


def raised_in_library(exc):
    """True when the innermost Python frame of the traceback is library (or
    third-party) code rather than harness code: tells a library defect from a
    bug in the monitor itself (the latter is reported as harness-error)."""
    import os
    tb = exc.__traceback__
    last = None
    while tb is not None:
        last = tb.tb_frame.f_code.co_filename
        tb = tb.tb_next
    if last is None:
        return False
    here = os.path.dirname(os.path.abspath(__file__))
    return not os.path.abspath(last).startswith(here)


def scrub_all_models():
    """Harness hygiene (not an oracle): drop solver nodes cached on ANY library model object still alive in the
    process - also objects no longer reachable from a live randobj (removed list elements, objects of finished
    cases).  pyboolector nodes must be released by reference counting, never by the cycle collector (its tp_clear
    order crashes the interpreter), so nothing may hold one when a case's garbage is collected."""
    import gc
    n = 0
    for o in gc.get_objects():
        t = type(o)
        if t.__module__.startswith("vsc.model."):
            d = getattr(o, "__dict__", None)
            if not d:
                continue
            for a in ("var", "sum_expr_btor", "product_expr_btor", "node", "btor"):
                if d.get(a) is not None and type(d[a]).__module__.startswith("pyboolector"):
                    d[a] = None
                    n += 1
    return n
