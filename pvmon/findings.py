"""Classifier predicates for known findings (keyed by mechanism, over the INPUT
of a case plus the symptom) - see /verif/known_findings.json.  A violation is
only attributed to a finding when EVERY deciding violation of the case matches
that one finding's predicate; anything else is reported as a VIOLATION."""
import re

from . import ref as R


def _leaves(e):
    k = e[0]
    if k in ("f", "ps", "bs"):
        yield e
    elif k == "b":
        for x in _leaves(e[2]):
            yield x
        for x in _leaves(e[3]):
            yield x
    elif k == "n":
        for x in _leaves(e[1]):
            yield x
    elif k in ("in", "nin"):
        for x in _leaves(e[1]):
            yield x
        for it in e[2]:
            if it[0] == "rng":
                for x in _leaves(it[1]):
                    yield x
                for x in _leaves(it[2]):
                    yield x
            elif it[0] in ("lst", "rl"):
                pass
            else:
                for x in _leaves(it):
                    yield x


def _unbounded(e, ctx):
    """value of a bit-vector expression computed with unbounded Python integers"""
    k = e[0]
    if k == "b":
        a = _unbounded(e[2], ctx)
        b = _unbounded(e[3], ctx)
        op = e[1]
        if op == "+":
            return a + b
        if op == "-":
            return a - b
        if op == "*":
            return a * b
        if op in ("/", "%"):
            if b == 0:
                raise R.Corner("div0")
            return a // b if op == "/" else a % b
        if op == "&":
            return a & b
        if op == "|":
            return a | b
        if op == "^":
            return a ^ b
        if op == "<<":
            return a << b
        if op == ">>":
            return a >> b
        raise R.Corner("relational inside")
    return R.ev_self(e, ctx)


def top_level_rels(call):
    """(self_path, relational expr) for every statement-level relational expression of the call
    (also the conjuncts of a statement-level &)"""
    out = []

    def walk(sp, e):
        if e[0] == "b" and e[1] in R.REL:
            out.append((sp, e))
        elif e[0] == "b" and e[1] == "&":
            walk(sp, e[2])
            walk(sp, e[3])
        elif e[0] == "dyn":
            # a statement-level reference to a dynamic block: value-range inference reads the block's own
            # statements as statement-level ones of the call
            try:
                objpath = tuple(sp) + tuple(e[1])
                o = R.get_at(call.root, objpath) if objpath else call.root
                for b in R.effective_blocks(call.prog, o["cls"]):
                    if b["n"] == e[2] and b.get("dyn"):
                        for s2 in b["st"]:
                            if s2[0] == "e":
                                walk(objpath, s2[1])
            except Exception:
                pass
    for sp, s, org in call.stmts:
        if s[0] == "e":
            walk(sp, s[1])
    return out


def is_random_leaf(call, sp, leaf):
    ap = tuple(sp) + tuple(leaf[1])
    return any(p == ap for p, _ in call.rand_leaves)


def nonrandom_operand_overflows(call):
    """F24 input predicate: a statement-level relational expression compares something with a
    sub-expression made only of fields that are not random in the call (and literals), and the
    unbounded-integer value of that sub-expression differs from its value at the context width."""
    for sp, e in top_level_rels(call):
        ctx = call.ctx({}, sp)
        try:
            lw, ls, _ = R.etype(e[2], ctx)
            rw, rs, _ = R.etype(e[3], ctx)
            cw, cs = max(lw, rw), (ls and rs)
            for X in (e[2], e[3]):
                lv = list(_leaves(X))
                if X[0] != "b" or any(is_random_leaf(call, sp, l) for l in lv):
                    continue
                u = _unbounded(X, ctx)
                w = R.ev(X, ctx, cw, cs)
                w = R.wrap(w, cw, True) if cs else w
                if u != w:
                    return True
        except R.Corner:
            continue
    return False


def mixed_sign_relational(call):
    """F17 input predicate: a statement-level relational expression has a signed and an unsigned
    operand and at least one random field"""
    for sp, e in top_level_rels(call):
        ctx = call.ctx({}, sp)
        try:
            _, ls, _ = R.etype(e[2], ctx)
            _, rs, _ = R.etype(e[3], ctx)
        except R.Corner:
            continue
        if ls != rs and any(is_random_leaf(call, sp, l) for l in list(_leaves(e[2])) + list(_leaves(e[3])) if l[0] == "f"):
            return True
    return False


def empty_collection_in(call):
    """F20 input predicate: an active in-constraint names a list or mutable rangelist that is empty at call time"""
    def walk(sp, e):
        if e[0] in ("in", "nin"):
            for it in e[2]:
                if it[0] in ("lst", "rl"):
                    cur = R.get_at(call.root, tuple(sp) + tuple(it[1] if it[0] == "lst" else [it[1]]))
                    if len(cur) == 0:
                        return True
        if e[0] == "b":
            return walk(sp, e[2]) or walk(sp, e[3])
        if e[0] == "n":
            return walk(sp, e[1])
        return False

    def walk_s(sp, s):
        if s[0] == "e":
            return walk(sp, s[1])
        if s[0] == "if":
            return any(walk(sp, c) or any(walk_s(sp, x) for x in b) for c, b in s[1]) or any(walk_s(sp, x) for x in (s[2] or []))
        if s[0] == "imp":
            return walk(sp, s[1]) or any(walk_s(sp, x) for x in s[2])
        return False
    return any(walk_s(sp, s) for sp, s, org in call.stmts)


def aggregate_of_empty_list(call):
    """F25 input predicate: a statement of the call contains sum/product of a list that has no element at
    the time of the call (for a random-size list: whose size is fixed to 0 by nothing - not covered)"""
    def has(e):
        if not isinstance(e, list) or not e:
            return False
        if e[0] in ("sum", "prod"):
            try:
                cur = R.get_at(call.root, tuple(e[1]))
                return len(cur) == 0
            except Exception:
                return False
        return any(has(x) for x in e[1:] if isinstance(x, list))
    for sp, s, org in call.stmts:
        if sp == () and has(s):
            return True
    return False


def _rsz_lists(call):
    """absolute paths of the random-size lists that are random in this call"""
    return set(p[:-1] for p, t in call.rand_leaves if t[0] == "size")


def _walk_exprs(x, fn):
    if isinstance(x, list) and x:
        if isinstance(x[0], str):
            fn(x)
        for y in x[1:] if isinstance(x[0], str) else x:
            if isinstance(y, list):
                _walk_exprs(y, fn)


def uses_on_random_size_list(call, what):
    """what: 'foreach' | 'member' | 'aggregate' - does an active statement apply it to a random-size list?"""
    rsz = _rsz_lists(call)
    if not rsz:
        return False
    hit = [False]
    for sp, s, org in call.stmts:
        def fn(e, sp=sp):
            if what == "foreach" and e[0] == "fe" and tuple(sp) + tuple(e[1]) in rsz:
                hit[0] = True
            if what == "member" and e[0] in ("in", "nin"):
                for it in e[2]:
                    if it[0] == "lst" and tuple(sp) + tuple(it[1]) in rsz:
                        hit[0] = True
            if what == "member" and e[0] == "uniq":
                for it in e[1]:
                    if it[0] == "lst" and tuple(sp) + tuple(it[1]) in rsz:
                        hit[0] = True
            if what == "aggregate" and e[0] in ("sum", "prod") and tuple(sp) + tuple(e[1]) in rsz:
                hit[0] = True
            if e[0] == "dyn":
                # a referenced dynamic block is part of the call: look at its statements as well
                try:
                    objpath = tuple(sp) + tuple(e[1])
                    o = R.get_at(call.root, objpath) if objpath else call.root
                    for b in R.effective_blocks(call.prog, o["cls"]):
                        if b["n"] == e[2] and b.get("dyn"):
                            for s2 in b["st"]:
                                _walk_exprs(s2, lambda e2, sp2=objpath: fn(e2, sp2))
                except Exception:
                    pass
        _walk_exprs(s, fn)
    return hit[0]


def prog_rsz_uses(prog):
    rsz = set()
    for cn, cd in prog.get("classes", {}).items():
        for fd in cd["fields"]:
            if fd["k"] == "list" and fd.get("rsz"):
                rsz.add(fd["n"])
    uses = set()
    if not rsz:
        return uses

    def fn(e):
        if e[0] in ("sum", "prod") and e[1] and e[1][-1] in rsz:
            uses.add("aggregate")
        if e[0] == "fe" and e[1] and e[1][-1] in rsz:
            uses.add("foreach")
        if e[0] in ("in", "nin"):
            for it in e[2]:
                if it[0] == "lst" and it[1] and it[1][-1] in rsz:
                    uses.add("member")
        if e[0] == "uniq":
            for it in e[1]:
                if it[0] == "lst" and it[1] and it[1][-1] in rsz:
                    uses.add("member")
    for cn, cd in prog.get("classes", {}).items():
        for b in cd["blocks"]:
            _walk_exprs(b["st"], fn)
    return uses


def prog_has_rsz_aggregate(prog):
    rsz = set()
    for cn, cd in prog.get("classes", {}).items():
        for fd in cd["fields"]:
            if fd["k"] == "list" and fd.get("rsz"):
                rsz.add(fd["n"])
    if not rsz:
        return False
    hit = [False]

    def fn(e):
        if e[0] in ("sum", "prod") and e[1] and e[1][-1] in rsz:
            hit[0] = True
    for cn, cd in prog.get("classes", {}).items():
        for b in cd["blocks"]:
            _walk_exprs(b["st"], fn)
    return hit[0]


def failed_call_before_on_random_size_list(spec, ev):
    """F28 input predicate: the object has a random-size list and an earlier call on it ended in an exception"""
    hist = spec.get("hist", [])
    prog = spec["prog"]
    has = any(fd["k"] == "list" and fd.get("rsz") for c in prog["classes"].values() for fd in c["fields"])
    return has and ev is not None and bool(ev.get("_failed_before") or ev["op"].get("_failed_before"))


def _class_contains(prog, holder, target):
    if holder == target:
        return True
    for c in R.class_chain(prog, holder):
        for fd in prog["classes"][c]["fields"]:
            if fd["k"] == "obj" or (fd["k"] == "list" and fd.get("ek") == "obj"):
                if _class_contains(prog, fd["c"], target):
                    return True
    return False


def _dyn_refs(stmts):
    out = []

    def we(e):
        if not isinstance(e, list) or not e:
            return
        if e[0] == "dyn":
            out.append(e)
        for x in e[1:]:
            if isinstance(x, list):
                we(x)
    for s in stmts:
        we(s)
    return out


def dynref_with_later_instance(spec, ev):
    """F10 input predicate: the call references a dynamic constraint through an attribute path (not through a
    list index) and an object of the dynamic block's class was constructed after the referenced object."""
    call = ev.get("call")
    if call is None:
        return False
    hist = spec.get("hist", [])
    pos = None
    for i, op in enumerate(hist):
        if op is ev["op"]:
            pos = i
    if pos is None:
        return False
    inst = ev["op"].get("o", "o0")
    created = -1
    for i, op in enumerate(hist[:pos]):
        if op.get("op") == "new" and op.get("name") == inst:
            created = i
    prog = spec["prog"]
    refs = []
    for sp, s, org in call.stmts:
        for d in _dyn_refs([s]):
            if any(isinstance(x, int) for x in d[1]):
                continue
            try:
                tgt = R.get_at(call.root, tuple(sp) + tuple(d[1])) if (tuple(sp) + tuple(d[1])) else call.root
                refs.append(tgt["cls"])
            except Exception:
                continue
    if not refs:
        return False
    for i, op in enumerate(hist[:pos]):
        if i > created and op.get("op") == "new":
            cn = op.get("cls") or prog["top"]
            if any(_class_contains(prog, cn, rc) for rc in refs):
                return True
    return False


def _all(viol, pred):
    return bool(viol) and all(pred(v[0], v[1], v[2] if len(v) > 2 else None) for v in viol)


def _call(ev):
    return ev.get("call") if ev else None


def classify(prop, spec, viol, evs=None):
    """viol: list of (kind, message, event/info).  Every violation is classified on its own; the case is attributed
    to known findings only if EVERY deciding violation matches some finding's predicate.  Returns the keys joined
    by '+' (the caller honours them only when known_findings.json lists each key for this property) or None."""
    if not viol:
        return None
    keys = []
    for v in viol:
        k = classify_one(prop, spec, v[0], v[1], v[2] if len(v) > 2 else None)
        if k is None:
            return None
        keys.append(k)
    return "+".join(sorted(set(keys)))


def classify_one(prop, spec, k, m, ev):
    c = _call(ev) if isinstance(ev, dict) else None

    # ---- value-range inference (F23, F24, F17, F24r, F8)
    if (k == "other-exception" and "raised IndexError" in m and re.search(r"variable_bound_\w*propagator\.py", m) is not None
            and ("[unsatisfiable]" in m or (c is not None and (mixed_sign_relational(c) or nonrandom_operand_overflows(c))))):
        return "bounds-empty-domain-indexerror"
    if (k == "other-exception" and "boolector_slice" in m and "must not be >= width" in m
            and c is not None and (nonrandom_operand_overflows(c) or mixed_sign_relational(c))):
        return "bounds-unbounded-int-slice-exception"
    if prop == "C14":
        if k in ("range-misses-feasible-value", "feasible-value-starved") and c is not None and mixed_sign_relational(c):
            return "bounds-mixed-sign-compare"
        if k in ("range-misses-feasible-value", "feasible-value-starved") and c is not None and nonrandom_operand_overflows(c):
            return "bounds-unbounded-int-range"
        if _f8(k, m, ev):
            return "swizzle-pins-low-bits-only"
    if prop == "C16" and k == "continuation-diverges":
        # the faulted session enters the continuation with a random-size list of another length (an aborted
        # with-block / post_randomize call did solve and re-size it): the known random-size-list defects make the
        # outcome of the next call depend on the length the list had before (stale element count in sum/product F9;
        # foreach copies for elements that will not exist F27; membership not lowered F26)
        uses = prog_rsz_uses(spec.get("prog", {}))
        if "aggregate" in uses:
            return "aggregate-of-random-size-list-stale-size"
        if "member" in uses:
            return "membership-in-random-size-list-not-enforced"
        if "foreach" in uses:
            return "foreach-over-random-size-list-unguarded"
    if prop == "C20":
        if k == "marginal-depends-on-later-variable" and isinstance(ev, dict) and ev.get("ranges") and ev.get("feasible") is not None:
            # F36: the range inferred for the earlier variable contains a value that no solution has.  When that
            # value is drawn as the target it is dropped and the variable stays open while the later group is
            # randomized, so its final value depends on the later variable
            inrange = set(v for lo, hi in ev["ranges"] for v in range(int(lo), int(hi) + 1)) if all(
                int(hi) - int(lo) < 4096 for lo, hi in ev["ranges"]) else None
            if inrange is not None and inrange - set(ev["feasible"]):
                return "infeasible-target-leaves-earlier-variable-open"
        if k == "earlier-variable-value-starved" and _f8("feasible-value-starved", m, ev):
            return "swizzle-pins-low-bits-only"
        if k == "marginal-not-uniform" and isinstance(ev, dict) and ev.get("ranges") and len(ev["ranges"]) >= 2:
            return "multi-range-domain-not-uniform"
        if k == "marginal-depends-on-later-variable" and isinstance(ev, dict) and ev.get("ranges"):
            # the drawn target only pins the low bits / picks a range first: which of the aliasing values the solver
            # returns then depends on the rest of the formula, i.e. on the coupling with the later variable
            rl, w = ev["ranges"], ev.get("width", 0)
            if len(rl) >= 2 or any(max(abs(lo), abs(hi)).bit_length() < w for lo, hi in rl):
                feas = ev.get("feasible", [])
                for lo, hi in rl:
                    d = max(abs(lo), abs(hi)).bit_length()
                    if any(u != v and (u - v) % (1 << d) == 0 for u in feas for v in feas if lo <= v <= hi):
                        return "swizzle-pins-low-bits-only"
                if len(rl) >= 2:
                    return "multi-range-domain-not-uniform"
    # ---- dynamic constraints (F10)
    if prop == "C06" and isinstance(ev, dict) and "op" in ev and dynref_with_later_instance(spec, ev):
        return "dynamic-ref-binds-last-constructed-instance"
    # ---- lists (F27, F26, F9, F28)
    if prop in ("C04", "C02") and c is not None:
        if (k in ("value-violates-constraint", "unsat-returned-normally", "spurious-solve-failure")
                and uses_on_random_size_list(c, "member")):
            return "membership-in-random-size-list-not-enforced"
        if (k in ("value-violates-constraint", "unsat-returned-normally", "spurious-solve-failure", "other-exception")
                and uses_on_random_size_list(c, "aggregate")):
            return "aggregate-of-random-size-list-stale-size"
        if k in ("spurious-solve-failure", "formula-unsat-but-ref-sat") and uses_on_random_size_list(c, "foreach"):
            return "foreach-over-random-size-list-unguarded"
    if prop == "C04" and k in ("list-edit-mismatch", "list-views-disagree") and failed_call_before_on_random_size_list(spec, ev):
        return "failed-call-leaves-random-size-list-extended"
    # ---- empty collections (F20, F25)
    if (k in ("unsat-returned-normally", "formula-mismatch", "value-violates-constraint")
            and c is not None and aggregate_of_empty_list(c)):
        return "aggregate-of-empty-list-dropped"
    if (k in ("unsat-returned-normally", "formula-mismatch", "value-violates-constraint", "spurious-solve-failure")
            and c is not None and empty_collection_in(c)):
        return "in-empty-collection-lowered-to-true"
    return None


def _f8(k, m, ev):
    # the swizzler pins only the low d bits of the drawn target value (d = bit length of the largest magnitude
    # in the inferred range it drew from); the bits above - including the sign bit - are left to the solver.
    # A feasible value that shares its low d bits with another feasible value can thus have probability 0.
    if not (k == "feasible-value-starved" and isinstance(ev, dict) and ev.get("starved_field")
            and ev["starved_field"][1][0] == "int" and ev.get("ranges")):
        return False
    w, signed = ev["starved_field"][1][1], ev["starved_field"][1][2]
    feas = [v for v in ev.get("feasible", []) if isinstance(v, int)]
    for v in ev.get("starved", []):
        ok = False
        for lo, hi in ev["ranges"]:
            if lo <= v <= hi:
                d = max(abs(lo), abs(hi)).bit_length()
                if d < w or signed:
                    if any(u != v and (u - v) % (1 << d) == 0 for u in feas):
                        ok = True
        if not ok:
            return False
    return True
