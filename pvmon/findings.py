"""Classifier predicates for known findings (keyed by mechanism, over the INPUT
of a case plus the symptom) - see /verif/known_findings.json.  A violation is
only attributed to a finding when every reported violation of the case matches
that finding's predicate; anything else is reported as a VIOLATION."""
import re


def _all(viol, pred):
    return bool(viol) and all(pred(k, m) for k, m in viol)


def classify(prop, spec, viol, evs=None):
    """viol: list of (kind, message).  Returns a finding key or None."""
    if prop == "C02":
        # F23: unsat call, IndexError out of the bound propagators
        def f23(k, m):
            return (k == "other-exception" and "raised IndexError" in m and "[unsatisfiable]" in m
                    and re.search(r"variable_bound_\w*propagator\.py", m) is not None)
        if _all(viol, f23):
            return "bounds-empty-domain-indexerror"
    return None
