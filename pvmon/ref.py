"""Independent reference semantics for constraint programs (never imports vsc).

Written from the documentation and the SystemVerilog rules it appeals to:
 * integer fields carry (width, signed); a bare Python int is a 32-bit signed
   literal; ["u",v,w] / ["s",v,w] are sized literals;
 * a bit-vector expression is evaluated at its context width = max width of
   the operands of the enclosing relational (or statement-level) expression,
   arithmetic wraps modulo 2^W, an expression is signed iff all its operands
   are signed, extension is sign extension iff the expression is signed;
 * relational operators yield a 1-bit unsigned value; shifts are logical;
   part-select yields unsigned bits [hi:lo]; ~ on a Boolean term is negation.

Constructs on which "SystemVerilog-style" is contestable raise Corner: the
generators must stay away from them (they are never silently guessed)."""
import itertools

REL = {"==", "!=", "<", "<=", ">", ">="}
ARITH = {"+", "-", "*", "/", "%", "&", "|", "^"}
SHIFT = {"<<", ">>"}


class Corner(Exception):
    """construct outside the validated input language"""


class RefError(Exception):
    pass


def wrap(v, w, s):
    v &= (1 << w) - 1
    if s and (v >> (w - 1)) & 1:
        v -= 1 << w
    return v


# ---------------------------------------------------------------------------
# object state
# ---------------------------------------------------------------------------

def new_state(prog, cname, declared_rand=True):
    """Initial state of a freshly constructed instance of class cname."""
    st = {"cls": cname, "rand": declared_rand, "f": {}, "rm": {}, "cm": {}}
    for fd in all_fields(prog, cname):
        n = fd["n"]
        k = fd["k"]
        if k == "int":
            st["f"][n] = wrap(fd.get("i", 0), fd["w"], fd["s"])
            st["rm"][n] = bool(fd["r"])
        elif k == "enum":
            st["f"][n] = fd.get("i") or prog["enums"][fd["e"]][0][0]
            st["rm"][n] = bool(fd["r"])
        elif k == "obj":
            st["f"][n] = new_state(prog, fd["c"], bool(fd["r"]))
        elif k == "list":
            ek = fd["ek"]
            if ek == "int":
                st["f"][n] = [wrap(x, fd["w"], fd["s"]) for x in fd.get("init", [0] * (0 if fd.get("rsz") else fd.get("sz", 0)))]
            elif ek == "enum":
                first = prog["enums"][fd["e"]][0][0]
                st["f"][n] = list(fd.get("init", [first] * fd.get("sz", 0)))
            else:
                st["f"][n] = [new_state(prog, fd["c"], bool(fd["r"])) for _ in range(fd.get("sz", 0))]
        elif k == "rangelist":
            st["f"][n] = [list(x) if isinstance(x, (list, tuple)) else x for x in fd["items"]]
    for b in effective_blocks(prog, cname):
        if not b.get("dyn"):
            st["cm"][b["n"]] = True
    return st


def class_chain(prog, cname):
    chain = []
    while cname:
        chain.insert(0, cname)
        cname = prog["classes"][cname].get("base")
    return chain


def all_fields(prog, cname):
    out = []
    for c in class_chain(prog, cname):
        out.extend(prog["classes"][c]["fields"])
    return out


def field_decl(prog, cname, name):
    for fd in all_fields(prog, cname):
        if fd["n"] == name:
            return fd
    raise RefError("no field %s in %s" % (name, cname))


def effective_blocks(prog, cname):
    """most-derived block per name, in first-declaration order"""
    order, by = [], {}
    for c in class_chain(prog, cname):
        for b in prog["classes"][c]["blocks"]:
            if b["n"] not in by:
                order.append(b["n"])
            by[b["n"]] = b
    return [by[n] for n in order]


def get_obj(st, path):
    o = st
    for p in path:
        o = o["f"][p] if isinstance(p, str) else o[p]
    return o


def get_at(st, path):
    o = st
    for p in path:
        if isinstance(o, dict) and "f" in o:
            o = o["f"][p]
        else:
            o = o[p]
    return o


def set_at(st, path, v):
    o = st
    for p in path[:-1]:
        if isinstance(o, dict) and "f" in o:
            o = o["f"][p]
        else:
            o = o[p]
    if isinstance(o, dict) and "f" in o:
        o["f"][path[-1]] = v
    else:
        o[path[-1]] = v


def decl_at(prog, st, path):
    """declaration of the field reached by path (list index steps keep the list's decl)"""
    o = st
    fd = None
    for p in path:
        if isinstance(p, str):
            if p == "#sz":
                continue
            fd = field_decl(prog, o["cls"], p)
            o = o["f"][p]
        elif fd is not None and fd["k"] == "list" and fd["ek"] != "obj":
            pass    # element of a scalar list: the list's declaration describes it (the element may not exist yet)
        else:
            o = o[p]
    return fd


# ---------------------------------------------------------------------------
# which leaves are random in a call
# ---------------------------------------------------------------------------

def leaf_type(prog, fd):
    if fd["k"] == "int":
        return ("int", fd["w"], fd["s"])
    if fd["k"] == "enum":
        return ("enum", fd["e"])
    if fd["k"] == "list":
        if fd["ek"] == "int":
            return ("int", fd["w"], fd["s"])
        if fd["ek"] == "enum":
            return ("enum", fd["e"])
    raise RefError("not a leaf: %r" % (fd,))


def walk_leaves(prog, st, used_rand, prefix, level, out, objs):
    """Collects (path, type, is_random_in_call) for every scalar leaf, and
    (path, objstate, used_rand) for every object, following the documented
    rule: a member takes part as random iff it is declared random, its
    rand_mode is on and every enclosing object is random in the call."""
    objs.append((tuple(prefix), st, used_rand))
    for fd in all_fields(prog, st["cls"]):
        n = fd["n"]
        k = fd["k"]
        p = prefix + [n]
        if k in ("int", "enum"):
            r = used_rand and bool(fd["r"]) and st["rm"].get(n, bool(fd["r"]))
            out.append((tuple(p), leaf_type(prog, fd), r))
        elif k == "obj":
            sub = st["f"][n]
            walk_leaves(prog, sub, used_rand and bool(fd["r"]), p, level + 1, out, objs)
        elif k == "list":
            lr = used_rand and bool(fd["r"])
            if fd["ek"] == "obj":
                if fd.get("rsz") and lr:
                    # random-size list of objects: the user populated it; its size ranges over 0..number of objects
                    out.append((tuple(p + ["#sz"]), ("size", len(st["f"][n])), True))
                for i, sub in enumerate(st["f"][n]):
                    walk_leaves(prog, sub, lr, p + [i], level + 2, out, objs)
            elif fd.get("rsz") and lr:
                # random-size list: the size is a leaf of the call, and so is every element up to the
                # largest size the generator's size constraints admit (fd["szmax"])
                out.append((tuple(p + ["#sz"]), ("size", fd["szmax"]), True))
                for i in range(fd["szmax"]):
                    out.append((tuple(p + [i]), leaf_type(prog, fd), True))
            else:
                for i in range(len(st["f"][n])):
                    out.append((tuple(p + [i]), leaf_type(prog, fd), lr))


def leaf_domain(prog, t):
    if t[0] == "size":
        return range(0, t[1] + 1)
    if t[0] == "int":
        w, s = t[1], t[2]
        if s:
            return range(-(1 << (w - 1)), 1 << (w - 1))
        return range(0, 1 << w)
    return [m for m, _ in prog["enums"][t[1]]]


def leaf_bits(prog, t):
    if t[0] == "int":
        return t[1]
    n = (t[1] + 1) if t[0] == "size" else len(prog["enums"][t[1]])
    b = 0
    while (1 << b) < n:
        b += 1
    return b


# ---------------------------------------------------------------------------
# expression typing and evaluation
# ---------------------------------------------------------------------------

class Ctx(object):
    """Evaluation context: program, root state, 'self' object path, foreach
    variable bindings, and the current assignment of the call's random leaves
    (env: dict path-tuple -> value) layered over the stored state."""

    def __init__(self, prog, root, self_path=(), env=None, fe=None):
        self.prog = prog
        self.root = root
        self.self_path = tuple(self_path)
        self.env = env if env is not None else {}
        self.fe = fe or []   # list of (list_abs_path, index)

    def sub(self, **kw):
        c = Ctx(self.prog, self.root, self.self_path, self.env, list(self.fe))
        for k, v in kw.items():
            setattr(c, k, v)
        return c

    def abs(self, path):
        return self.self_path + tuple(path)

    def read(self, apath):
        if apath in self.env:
            return self.env[apath]
        try:
            return get_at(self.root, apath)
        except IndexError:
            # a statement names an element the list does not have (any more)
            raise Corner("list index outside the list")

    def decl(self, apath):
        return decl_at(self.prog, self.root, apath)


def enum_val(prog, ename, member):
    for m, v in prog["enums"][ename]:
        if m == member:
            return v
    raise RefError("no enumerator %s.%s" % (ename, member))


def _leaf_tv(ctx, apath):
    """(value, width, signed) of the scalar leaf at an absolute path"""
    fd = ctx.decl(apath)
    v = ctx.read(apath)
    if fd["k"] == "enum" or (fd["k"] == "list" and fd["ek"] == "enum"):
        return enum_val(ctx.prog, fd["e"], v), 32, True
    if fd["k"] in ("int", "list"):
        return v, fd["w"], fd["s"]
    raise RefError("not a scalar: %r" % (apath,))


def etype(e, ctx):
    """self-determined (width, signed, is_bool) of an expression"""
    k = e[0]
    if k == "c":
        if not (-(1 << 31) <= e[1] < (1 << 31)):
            raise Corner("bare literal outside 32-bit signed range")
        return 32, True, False
    if k == "u":
        return e[2], False, False
    if k == "s":
        return e[2], True, False
    if k == "v":
        return e[2], e[3], False
    if k == "f":
        _, w, s = _leaf_tv(ctx, ctx.abs(e[1]))
        return w, s, False
    if k in ("it", "ita"):
        ap = _it_path(e, ctx)
        _, w, s = _leaf_tv(ctx, ap)
        return w, s, False
    if k == "el":
        _, w, s = _leaf_tv(ctx, _el_path(e, ctx))
        return w, s, False
    if k == "idx":
        # the index of an unrolled foreach is a bare integer like any other: 32 bits, signed
        return 32, True, False
    if k == "en":
        return 32, True, False
    if k == "b":
        op = e[1]
        if op in REL:
            return 1, False, True
        lw, ls, lb = etype(e[2], ctx)
        rw, rs, rb = etype(e[3], ctx)
        if op in SHIFT:
            if lb or rb:
                raise Corner("shift of Boolean term")
            if ls or rs:
                raise Corner("shift with signed operand")
            if rw > lw:
                raise Corner("shift amount wider than shifted operand")
            return lw, False, False
        if lb != rb:
            raise Corner("Boolean term mixed with bit-vector operand")
        if lb and rb:
            if op not in ("&", "|", "^"):
                raise Corner("arithmetic on Boolean terms")
            return 1, False, True
        if op in ("/", "%"):
            if ls or rs:
                raise Corner("signed division")
        return max(lw, rw), (ls and rs), False
    if k == "n":
        w, s, b = etype(e[1], ctx)
        if not b:
            raise Corner("~ on a bit-vector")
        return 1, False, True
    if k in ("in", "nin", "dyn", "dyni"):
        return 1, False, True
    if k == "ps":
        return e[2] - e[3] + 1, False, False
    if k == "psit":
        # ["psit", hi, lo]: part-select of the current element of the innermost foreach
        return e[1] - e[2] + 1, False, False
    if k == "bs":
        return 1, False, False
    if k == "sz":
        return 32, False, False
    if k == "sum":
        # wide enough never to overflow: element width + clog2(number of elements)
        fd = ctx.decl(ctx.abs(e[1]))
        n = len(_read_list(ctx, ctx.abs(e[1])))
        bits = fd["w"]
        ov = n - 1
        while ov > 0:
            bits += 1
            ov >>= 1
        return bits, fd["s"], False
    if k == "prod":
        fd = ctx.decl(ctx.abs(e[1]))
        if len(_read_list(ctx, ctx.abs(e[1]))) == 0:
            raise Corner("product of an empty list")
        return 64, fd["s"], False
    raise RefError("unknown expression %r" % (e,))


def _it_path(e, ctx):
    d = e[1] if (e[0] == "it" and len(e) > 1) else (e[2] if (e[0] == "ita" and len(e) > 2) else -1)
    lp, i = ctx.fe[d]
    if e[0] == "ita":
        return lp + (i, e[1])
    return lp + (i,)


def _el_path(e, ctx):
    """["el", listpath, index expr, optional attr]: element of a list selected by a computed index"""
    lp = ctx.abs(e[1])
    iw, isg, _ = etype(e[2], ctx)
    i = ev_self(e[2], ctx)
    n = len(_read_list(ctx, lp))
    if not (0 <= i < n):
        raise Corner("list index outside the list")
    ap = lp + (i,)
    if len(e) > 3 and e[3]:
        ap = ap + (e[3],)
    return ap


def _signed_tree(e, ctx):
    """all leaves of a context-determined tree share one signedness? returns set"""
    k = e[0]
    if k == "b" and e[1] in ARITH and not etype(e, ctx)[2]:
        return _signed_tree(e[2], ctx) | _signed_tree(e[3], ctx)
    if k == "b" and e[1] in SHIFT:
        return _signed_tree(e[2], ctx)
    if k == "c":
        # a bare Python int adapts to its context: non-negative (or <= 32-bit context) is the same under
        # either extension rule, the remaining case raises Corner in ev()
        return set()
    w, s, b = etype(e, ctx)
    return {s}


def _is_compound(e):
    return e[0] == "b" and (e[1] in ARITH or e[1] in SHIFT)


def ev(e, ctx, cw, cs):
    """value of bit-vector expression e as a bit pattern in [0, 2^cw), in a
    context of width cw and signedness cs"""
    k = e[0]
    if k == "b" and e[1] in ARITH:
        a = ev(e[2], ctx, cw, cs)
        b = ev(e[3], ctx, cw, cs)
        op = e[1]
        m = (1 << cw) - 1
        if op == "+":
            return (a + b) & m
        if op == "-":
            return (a - b) & m
        if op == "*":
            return (a * b) & m
        if op == "/":
            if b == 0:
                raise Corner("division by zero")
            return (a // b) & m
        if op == "%":
            if b == 0:
                raise Corner("modulo by zero")
            return (a % b) & m
        if op == "&":
            return a & b
        if op == "|":
            return a | b
        if op == "^":
            return a ^ b
    if k == "b" and e[1] in SHIFT:
        a = ev(e[2], ctx, cw, cs)
        rw = etype(e[3], ctx)[0]
        b = ev(e[3], ctx, rw, False)
        m = (1 << cw) - 1
        if e[1] == "<<":
            return (a << b) & m if b < cw else 0
        return (a >> b) if b < cw else 0
    # leaf of the context-determined tree: evaluate self-determined, then extend
    w, s, isb = etype(e, ctx)
    if isb:
        raise Corner("Boolean term used as bit-vector operand")
    v = ev_self(e, ctx)          # signed interpretation if s else unsigned
    if cw < w:
        raise RefError("context narrower than operand")
    if s and cs:
        return v & ((1 << cw) - 1)             # sign extension
    if s and not cs:
        if k == "c" and v < 0 and cw > 32:
            raise Corner("negative bare literal zero-extended beyond 32 bits")
        return v & ((1 << w) - 1)              # re-interpret as unsigned, zero-extend
    return v


def ev_self(e, ctx):
    """self-determined value of a leaf-like expression (signed interpretation if signed)"""
    k = e[0]
    if k == "c":
        return e[1]
    if k == "u":
        return e[1] & ((1 << e[2]) - 1)
    if k == "s":
        return wrap(e[1], e[2], True)
    if k == "v":
        return wrap(e[1], e[2], e[3])
    if k == "f":
        return _leaf_tv(ctx, ctx.abs(e[1]))[0]
    if k in ("it", "ita"):
        return _leaf_tv(ctx, _it_path(e, ctx))[0]
    if k == "el":
        return _leaf_tv(ctx, _el_path(e, ctx))[0]
    if k == "idx":
        d = e[1] if len(e) > 1 else -1
        return ctx.fe[d][1]
    if k == "en":
        return enum_val(ctx.prog, e[1], e[2])
    if k == "ps":
        v, w, s = _leaf_tv(ctx, ctx.abs(e[1]))
        if not (0 <= e[3] <= e[2] < w):
            raise Corner("part-select outside the field")
        return ((v & ((1 << w) - 1)) >> e[3]) & ((1 << (e[2] - e[3] + 1)) - 1)
    if k == "psit":
        v, w, s = _leaf_tv(ctx, _it_path(["it"], ctx))
        if not (0 <= e[2] <= e[1] < w):
            raise Corner("part-select outside the field")
        return ((v & ((1 << w) - 1)) >> e[2]) & ((1 << (e[1] - e[2] + 1)) - 1)
    if k == "bs":
        v, w, s = _leaf_tv(ctx, ctx.abs(e[1]))
        if not (0 <= e[2] < w):
            raise Corner("bit-select outside the field")
        return ((v & ((1 << w) - 1)) >> e[2]) & 1
    if k == "sz":
        return len(_read_list(ctx, ctx.abs(e[1])))
    if k == "sum":
        w, sg, _ = etype(e, ctx)
        tot = sum(v for v, _, _ in _list_elem_tvs(ctx, ctx.abs(e[1])))
        return wrap(tot, w, sg)
    if k == "prod":
        w, sg, _ = etype(e, ctx)
        tot = 1
        for v, _, _ in _list_elem_tvs(ctx, ctx.abs(e[1])):
            tot *= v
        return wrap(tot, w, sg)
    w, s, isb = etype(e, ctx)
    v = ev(e, ctx, w, s)
    return wrap(v, w, s) if s else v


def _read_list(ctx, apath):
    """current elements of a list (honours a random size in env)"""
    base = get_at(ctx.root, apath)
    n = ctx.env.get(apath + ("#sz",), len(base))
    if base and isinstance(base[0], dict):
        return list(base[:n])        # list of objects: only the length matters to the callers
    out = []
    for i in range(n):
        p = apath + (i,)
        if p in ctx.env:
            out.append(ctx.env[p])
        elif i < len(base):
            out.append(base[i])
        else:
            raise RefError("list element %r has no value" % (p,))
    return out


def _list_elem_tvs(ctx, apath):
    fd = ctx.decl(apath)
    vals = _read_list(ctx, apath)
    if fd["ek"] == "enum":
        return [(enum_val(ctx.prog, fd["e"], v), 32, True) for v in vals]
    return [(v, fd["w"], fd["s"]) for v in vals]


def cmp_vals(op, a, aw, a_s, b, bw, b_s):
    """relational operator on two self-determined values"""
    w = max(aw, bw)
    s = a_s and b_s
    if s:
        x, y = a, b          # both signed interpretations, compare as integers
    else:
        x = a & ((1 << aw) - 1)
        y = b & ((1 << bw) - 1)
        if (a_s and a < 0 and w > aw) or (b_s and b < 0 and w > bw):
            # a signed operand in an unsigned comparison is zero-extended
            pass
    if op == "==":
        return x == y
    if op == "!=":
        return x != y
    if op == "<":
        return x < y
    if op == "<=":
        return x <= y
    if op == ">":
        return x > y
    if op == ">=":
        return x >= y
    raise RefError(op)


def rel_truth(op, L, R_, ctx):
    """relational operator: operands are context-determined at max(width), signed iff both signed"""
    lw, ls, lb = etype(L, ctx)
    rw, rs, rb = etype(R_, ctx)
    if lb or rb:
        raise Corner("comparison of Boolean terms")
    for side in (L, R_):
        if _is_compound(side) and len(_signed_tree(side, ctx)) > 1:
            raise Corner("mixed-sign nested arithmetic")
    if (_is_compound(L) or _is_compound(R_)):
        st = _signed_tree(L, ctx) | _signed_tree(R_, ctx)
        if len(st) > 1:
            raise Corner("mixed-sign comparison over compound operands")
    cw = max(lw, rw)
    cs = ls and rs
    a = ev(L, ctx, cw, cs)
    b = ev(R_, ctx, cw, cs)
    if cs:
        a = wrap(a, cw, True)
        b = wrap(b, cw, True)
    return {"==": a == b, "!=": a != b, "<": a < b, "<=": a <= b, ">": a > b, ">=": a >= b}[op]


def truth(e, ctx):
    """Boolean value of a Boolean-typed expression"""
    k = e[0]
    if k == "b":
        op = e[1]
        if op in REL:
            return rel_truth(op, e[2], e[3], ctx)
        lb = etype(e[2], ctx)[2]
        rb = etype(e[3], ctx)[2]
        if lb and rb and op in ("&", "|", "^"):
            a = truth(e[2], ctx)
            b = truth(e[3], ctx)
            return (a and b) if op == "&" else (a or b) if op == "|" else (a != b)
        raise Corner("bit-vector expression used as a Boolean statement")
    if k == "n":
        return not truth(e[1], ctx)
    if k == "in":
        return member(e[1], e[2], ctx)
    if k == "nin":
        return not member(e[1], e[2], ctx)
    if k == "dyn":
        return dyn_truth(e, ctx)
    if k == "dyni":
        # ["dyni", listpath, index expr, block]: dynamic block of the list element selected by a computed index
        i = ev_self(e[2], ctx)
        n = len(get_at(ctx.root, ctx.abs(e[1])))
        if not (0 <= i < n):
            raise Corner("list index outside the list")
        return dyn_truth(["dyn", list(e[1]) + [i], e[3]], ctx)
    raise Corner("non-Boolean expression used as a statement: %r" % (e[0],))


def _list_consts(ctx, apath):
    return [["v", v, w, sg] for (v, w, sg) in _list_elem_tvs(ctx, apath)]


def member(lhs, items, ctx):
    """lhs inside {items}: each item is an equality (or a pair of >=, <=) whose operands
    are context-determined together with lhs"""
    for it in items:
        if it[0] == "rng":
            if rel_truth(">=", lhs, it[1], ctx) and rel_truth("<=", lhs, it[2], ctx):
                return True
        elif it[0] == "lst":
            for c in _list_consts(ctx, ctx.abs(it[1])):
                if rel_truth("==", lhs, c, ctx):
                    return True
        elif it[0] == "rl":
            cur = ctx.read(ctx.abs([it[1]]))
            if member(lhs, [_rl_item(x) for x in cur], ctx):
                return True
        else:
            if rel_truth("==", lhs, it, ctx):
                return True
    return False


def _rl_item(x):
    if isinstance(x, (list, tuple)):
        return ["rng", ["c", x[0]], ["c", x[1]]]
    return ["c", x]


def dyn_truth(e, ctx):
    objpath = ctx.abs(e[1])
    o = get_at(ctx.root, objpath)
    for b in effective_blocks(ctx.prog, o["cls"]):
        if b["n"] == e[2] and b.get("dyn"):
            c2 = ctx.sub(self_path=objpath)
            return all(stmt_holds(s, c2) for s in b["st"] if s[0] != "soft")
    raise RefError("no dynamic block %s" % e[2])


# ---------------------------------------------------------------------------
# statements
# ---------------------------------------------------------------------------

def stmt_holds(s, ctx):
    """hard meaning of one statement (soft statements are vacuous here)"""
    k = s[0]
    if k == "e":
        return truth(s[1], ctx)
    if k == "if":
        for cond, body in s[1]:
            if truth(cond, ctx):
                return all(stmt_holds(x, ctx) for x in body)
        if s[2] is not None:
            return all(stmt_holds(x, ctx) for x in s[2])
        return True
    if k == "imp":
        if truth(s[1], ctx):
            return all(stmt_holds(x, ctx) for x in s[2])
        return True
    if k == "uniq":
        terms = []
        for r in s[1]:
            if r[0] == "lst":
                terms.extend(_list_consts(ctx, ctx.abs(r[1])))
            else:
                terms.append(r)
        for i in range(len(terms)):
            for j in range(i + 1, len(terms)):
                if not rel_truth("!=", terms[i], terms[j], ctx):
                    return False
        return True
    if k == "uvec":
        vecs = [_list_consts(ctx, ctx.abs(p)) for p in s[1]]
        for i in range(len(vecs)):
            for j in range(i + 1, len(vecs)):
                if len(vecs[i]) != len(vecs[j]):
                    raise Corner("unique_vec over lists of different size")
                if all(rel_truth("==", x, y, ctx) for x, y in zip(vecs[i], vecs[j])):
                    return False
        return True
    if k == "soft":
        return True
    if k == "dist":
        items, zero = [], []
        for item, wexpr in s[2]:
            wv = ev_self(wexpr, ctx)
            if wv < 0:
                raise Corner("negative dist weight")
            (items if wv != 0 else zero).append(item)
        if not items:
            raise Corner("dist with no non-zero weight")
        # listed with a non-zero weight, and not named by any zero-weight entry ("zero weight means never",
        # also when the zero-weight entry punches a hole into a listed range)
        return member(s[1], items, ctx) and not (zero and member(s[1], zero, ctx))
    if k == "fe":
        lp = ctx.abs(s[1])
        n = len(_read_list(ctx, lp))
        for i in range(n):
            c2 = ctx.sub(fe=ctx.fe + [(lp, i)])
            if not all(stmt_holds(x, c2) for x in s[3]):
                return False
        return True
    if k == "so":
        return True
    raise RefError("unknown statement %r" % (k,))


def stmt_probe(s, ctx):
    """Evaluates every part of a statement whatever its conditions say, as the library does when it builds
    the formula: a contestable construct (Corner) under a false condition, or after a statement that is already
    false, makes the call contestable all the same.  Returns the statement's truth."""
    k = s[0]
    if k == "if":
        res, taken = True, False
        for cond, body in s[1]:
            c = truth(cond, ctx)
            r = [stmt_probe(x, ctx) for x in body]
            if c and not taken:
                res, taken = all(r), True
        if s[2] is not None:
            r = [stmt_probe(x, ctx) for x in s[2]]
            if not taken:
                res = all(r)
        return res
    if k == "imp":
        c = truth(s[1], ctx)
        r = [stmt_probe(x, ctx) for x in s[2]]
        return all(r) if c else True
    if k == "fe":
        lp = ctx.abs(s[1])
        n = len(_read_list(ctx, lp))
        res = True
        for i in range(n):
            c2 = ctx.sub(fe=ctx.fe + [(lp, i)])
            for x in s[3]:
                if not stmt_probe(x, c2):
                    res = False
        return res
    return stmt_holds(s, ctx)


def soft_list(stmts, ctx_guard=None):
    """Flattens the soft statements of a statement list in textual order as
    (guards, expr) where guards is a list of (cond_expr, polarity)."""
    out = []
    g = ctx_guard or []
    for s in stmts:
        if s[0] == "soft":
            out.append((list(g), s[1]))
        elif s[0] == "if":
            neg = []
            for cond, body in s[1]:
                out.extend(soft_list(body, g + neg + [(cond, True)]))
                neg = neg + [(cond, False)]
            if s[2] is not None:
                out.extend(soft_list(s[2], g + neg))
        elif s[0] == "imp":
            out.extend(soft_list(s[2], g + [(s[1], True)]))
    return out


def soft_holds(guards, e, ctx):
    for cond, pol in guards:
        if truth(cond, ctx) != pol:
            return True
    return truth(e, ctx)


# ---------------------------------------------------------------------------
# a call: which statements apply, enumeration of the solution set
# ---------------------------------------------------------------------------

class Call(object):
    """Reference view of one randomize call.

    kind: "randomize" | "with" | "free"
    target: object path (tuple) the call is made on (for free: ())
    fields: for free-standing calls, the list of absolute field/object paths
    inline: inline statement list (or None), evaluated with self = inline_self
    """

    def __init__(self, prog, root, kind="randomize", target=(), fields=None, inline=None, inline_self=None):
        self.prog = prog
        self.root = root
        self.kind = kind
        self.target = tuple(target)
        self.fields = [tuple(f) for f in (fields or [])]
        self.inline = inline
        self.inline_self = tuple(inline_self) if inline_self is not None else self.target
        self._analyse()

    def _analyse(self):
        prog, root = self.prog, self.root
        self.leaves = []      # (abs path, type, is_rand)
        self.objs = []        # (abs path, state, used_rand)
        if self.kind in ("randomize", "with"):
            tgt = get_at(root, self.target) if self.target else root
            walk_leaves(prog, tgt, True, list(self.target), 0, self.leaves, self.objs)
        else:
            for fp in self.fields:
                node = get_at(root, fp)
                if isinstance(node, dict) and "cls" in node:
                    walk_leaves(prog, node, True, list(fp), 0, self.leaves, self.objs)
                elif isinstance(node, list):
                    raise Corner("free-standing randomize of a list")
                else:
                    fd = decl_at(prog, root, fp)
                    # a field passed explicitly is random for the call whatever its declaration
                    self.leaves.append((fp, leaf_type(prog, fd), True))
        self.rand_leaves = [(p, t) for p, t, r in self.leaves if r]
        self._rsz_prefixes = [p[:-1] for p, t in self.rand_leaves if t[0] == "size"]
        # statements: (self_path, stmt, origin)
        self.stmts = []
        for path, st, used in self.objs:
            if not used:
                continue
            for b in effective_blocks(prog, st["cls"]):
                if b.get("dyn"):
                    continue
                if not st["cm"].get(b["n"], True):
                    continue
                for s in b["st"]:
                    self.stmts.append((path, s, "%s.%s" % (".".join(map(str, path)) or "self", b["n"])))
        if self.inline:
            for s in self.inline:
                self.stmts.append((self.inline_self, s, "inline"))
        # legality: unique_vec over lists that currently differ in size is rejected by the library (documented error),
        # wherever the statement sits
        def scan(sp, st):
            for x in st:
                if x[0] == "uvec":
                    sizes = set(len(get_at(self.root, tuple(sp) + tuple(p))) for p in x[1])
                    if len(sizes) > 1:
                        raise Corner("unique_vec over lists of different size")
                elif x[0] == "if":
                    for c_, b_ in x[1]:
                        scan(sp, b_)
                    if x[2] is not None:
                        scan(sp, x[2])
                elif x[0] in ("imp",):
                    scan(sp, x[2])
                elif x[0] == "fe":
                    scan(sp, x[3])
        for sp, s, org in self.stmts:
            scan(sp, [s])

    def bits(self):
        return sum(leaf_bits(self.prog, t) for _, t in self.rand_leaves)

    def ctx(self, env, self_path):
        return Ctx(self.prog, self.root, self_path, env)

    def _exists(self, sp, env):
        """objects that are elements of a random-size list only exist (and only then do their own blocks apply)
        when their index is below the list's size in this assignment"""
        if not self._rsz_prefixes:
            return True
        for base in self._rsz_prefixes:
            nb = len(base)
            if len(sp) > nb and tuple(sp[:nb]) == base and isinstance(sp[nb], int):
                n = env.get(base + ("#sz",))
                if n is not None and sp[nb] >= n:
                    return False
        return True

    def holds(self, env):
        for sp, s, _ in self.stmts:
            if not self._exists(sp, env):
                continue
            if not stmt_holds(s, self.ctx(env, sp)):
                return False
        return True

    def holds_strict(self, env):
        """as holds(), but every statement and every branch is evaluated (see stmt_probe)"""
        res = True
        for sp, s, _ in self.stmts:
            if not self._exists(sp, env):
                continue
            if not stmt_probe(s, self.ctx(env, sp)):
                res = False
        return res

    def violated(self, env):
        out = []
        for sp, s, org in self.stmts:
            if not self._exists(sp, env):
                continue
            if not stmt_holds(s, self.ctx(env, sp)):
                out.append((org, s))
        return out

    def domain_size(self):
        """number of points the enumeration visits (random-size lists: elements beyond the size are pinned)"""
        n = 1
        for _, t in self.rand_leaves:
            if t[0] == "int":
                n *= (1 << t[1])          # (len() of a 64-bit range overflows)
            else:
                n *= len(leaf_domain(self.prog, t))
        return n

    def canonical_domain_size(self):
        if not self.has_random_size():
            return self.domain_size()
        doms = [list(leaf_domain(self.prog, t)) for _, t in self.rand_leaves]
        szidx = self.size_index()
        return sum(1 for tup in itertools.product(*doms) if self.canonical(tup, szidx, doms))

    def enumerate(self, limit=1 << 16):
        """All assignments (tuples in rand_leaves order) satisfying the hard statements."""
        if self.domain_size() > limit:
            raise Corner("domain too large to enumerate")
        paths = [p for p, _ in self.rand_leaves]
        doms = [list(leaf_domain(self.prog, t)) for _, t in self.rand_leaves]
        sols = []
        szidx = self.size_index()
        for tup in itertools.product(*doms):
            if szidx and not self.canonical(tup, szidx, doms):
                continue
            env = dict(zip(paths, tup))
            if self.holds_strict(env):
                sols.append(tup)
        return sols

    def size_index(self):
        """for every random-size list of the call: (index of its size leaf, [(element number, index of element leaf)])"""
        paths = [p for p, _ in self.rand_leaves]
        out = []
        for i, (p, t) in enumerate(self.rand_leaves):
            if t[0] == "size":
                base = p[:-1]
                nb = len(base)
                els = [(q[nb], j) for j, q in enumerate(paths)
                       if len(q) > nb and q[:nb] == base and isinstance(q[nb], int)]
                out.append((i, els))
        return out

    def canonical(self, tup, szidx, doms):
        """elements at or beyond the chosen size do not exist: they are pinned to a placeholder value"""
        for si, els in szidx:
            for num, j in els:
                if num >= tup[si] and tup[j] != doms[j][0]:
                    return False
        return True

    def canon_value(self, tup):
        doms = [list(leaf_domain(self.prog, t)) for _, t in self.rand_leaves]
        tup = list(tup)
        for si, els in self.size_index():
            for num, j in els:
                if num >= tup[si]:
                    tup[j] = doms[j][0]
        return tuple(tup)

    def has_random_size(self):
        return any(t[0] == "size" for _, t in self.rand_leaves)

    def soft_items(self):
        """Soft statements in priority order, lowest first (later statement wins)."""
        out = []
        for sp, s, org in self.stmts:
            for guards, e in soft_list([s]):
                out.append((sp, guards, e, org))
        return out

    def soft_final(self, sols):
        """Exact greedy-by-priority reference: visit softs in descending priority
        (later first), keep S & soft_i when non-empty."""
        paths = [p for p, _ in self.rand_leaves]
        S = list(sols)
        for sp, guards, e, org in reversed(self.soft_items()):
            T = [t for t in S if soft_holds(guards, e, self.ctx(dict(zip(paths, t)), sp))]
            if T:
                S = T
        return S

    def value_of(self, snapshot_get):
        """tuple of current values of the random leaves read through snapshot_get(path)"""
        return tuple(snapshot_get(p) for p, _ in self.rand_leaves)
