"""M2 - solver-formula monitor at the guarded hook.

With PYVSC_VERIF=1 the randomizer emits, for every solver batch, the live
Boolector instance, the rand sets, the (constraint, node) pairs about to be
assumed and the bound map.  The listener clones the solver (the original is
left untouched, so random stability is not perturbed) and later decides, on the
clone, membership of concrete points in the library's hard formula."""
import copy


class Batch(object):
    def __init__(self):
        self.clone = None
        self.vars = []        # (field model, matched var node, width, is_signed, enums or None)
        self.nonrand = []     # (field model, value at hook time)
        self.hard = []
        self.soft = []        # (priority, node)
        self.n_hard = 0
        self.n_soft = 0
        self.asserted = False
        self.order = -1
        self.rand_order = None

    def assert_hard(self):
        if not self.asserted:
            for h in self.hard:
                self.clone.Assert(h)
            self.asserted = True

    def sat_at(self, assignment):
        """assignment: dict id(field model) -> integer value (signed view ok)"""
        self.assert_hard()
        cl = self.clone
        for fm, var, w, s, en in self.vars:
            v = assignment[id(fm)]
            cl.Assume(cl.Eq(var, cl.Const(v & ((1 << w) - 1), w)))
        return cl.Sat() == cl.SAT

    def release(self):
        """drop the matched nodes before the cloned solver (pyboolector nodes must not outlive their solver)"""
        self.vars = []
        self.hard = []
        self.soft = []
        self.nonrand = []
        self.clone = None

    def hard_sat(self):
        self.assert_hard()
        return self.clone.Sat() == self.clone.SAT


class CallRecord(object):
    def release(self):
        for b in self.batches:
            b.release()
        self.batches = []
        self.bound_m_live = None

    def __init__(self):
        self.batches = []
        self.unconstrained = []     # field models randomized without solver
        self.bounds = {}            # id(field model) -> list of [lo, hi]
        self.bounds_fm = {}
        self.n_randsets = 0
        self.solved = 0


class HookMonitor(object):
    """Install once per process; start_call()/end_call() delimit what the
    harness considers one API call (several solve_begin events inside one API
    call would be reported)."""

    def __init__(self):
        from vsc.impl import verif_hooks
        self.hooks = verif_hooks
        self.enabled = verif_hooks.ENABLED
        self.cur = None
        self.calls = []
        self.events = 0
        self.outstanding = []     # every CallRecord ever handed out and not yet released
        self.light = False        # light mode: record bounds only, never clone the solver (used under choice enumeration)
        if self._listener not in verif_hooks.listeners:
            verif_hooks.listeners.append(self._listener)

    def remove(self):
        try:
            self.hooks.listeners.remove(self._listener)
        except ValueError:
            pass

    def release_all(self):
        """deterministically drop every solver clone / matched node still held by earlier events
        (pyboolector nodes must never be reclaimed by the cycle collector)"""
        for rec in self.outstanding:
            try:
                rec.release()
            except Exception:
                pass
        self.outstanding = []

    def start_call(self):
        self.calls = []
        self.cur = None

    def end_call(self):
        out = self.calls
        self.calls = []
        self.cur = None
        return out

    def _listener(self, event, p):
        self.events += 1
        if event == "solve_begin":
            rec = CallRecord()
            ri = p["ri"]
            bound_m = p["bound_m"]
            rec.n_randsets = len(ri.randsets())
            rec.unconstrained = [f for f in ri.unconstrained() if f.is_used_rand]
            rec.bound_m_live = bound_m
            for fm, b in bound_m.items():
                try:
                    rec.bounds[id(fm)] = [list(r) for r in b.domain.range_l]
                    rec.bounds_fm[id(fm)] = fm
                except Exception:
                    pass
            self.cur = rec
            self.calls.append(rec)
            self.outstanding.append(rec)
        elif event == "batch_built":
            rec = self.cur
            if rec is None:
                return
            if self.light:
                for fm, bd in p["bound_m"].items():
                    try:
                        rec.bounds[id(fm)] = [list(r) for r in bd.domain.range_l]
                        rec.bounds_fm[id(fm)] = fm
                    except Exception:
                        pass
                return
            btor = p["btor"]
            b = Batch()
            cl = btor.Clone()
            b.clone = cl
            seen = set()
            for rs in p["randsets"]:
                b.order = rs.order
                if rs.rand_order_l is not None:
                    b.rand_order = [[id(f) for f in grp] for grp in rs.rand_order_l]
                for fm in rs.all_fields():
                    if id(fm) in seen:
                        continue
                    seen.add(id(fm))
                    if fm.var is None:
                        continue
                    if fm.is_used_rand:
                        b.vars.append((fm, cl.Match(fm.var), fm.width, fm.is_signed,
                                       getattr(fm, "enums", None)))
                    else:
                        b.nonrand.append((fm, int(fm.val)))
            b.hard = [cl.Match(n) for (_, n) in p["constraint_l"] if n is not None]
            b.n_hard = len(b.hard)
            b.soft = [(getattr(c, "priority", 0), cl.Match(n)) for (c, n) in p["soft_constraint_l"] if n is not None]
            b.n_soft = len(b.soft)
            # refresh bounds: this is the map the swizzler will use
            for fm, bd in p["bound_m"].items():
                try:
                    rec.bounds[id(fm)] = [list(r) for r in bd.domain.range_l]
                    rec.bounds_fm[id(fm)] = fm
                except Exception:
                    pass
            rec.batches.append(b)
        elif event == "batch_solved":
            if self.cur is not None:
                self.cur.solved += 1
