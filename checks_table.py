"""Table of registered checks (source of MANIFEST.json; see tools/mkmanifest.py)."""
CHECKS = {
    "C18": dict(
        level="exploration",
        technique="runtime monitor: arithmetic reference model compared on every read path after every write path (exhaustive small widths)",
        text="Every value in [-2^(w+1), 2^(w+1)] for widths 1..8 (thorough 1..10), both signednesses, is written through every "
             "write path (attribute, set_val, .val, constructor i=, list append/extend/assign/setitem/init) of live pyvsc fields "
             "and read back through every read path; part-select reads/writes for all (hi,lo) and all current values of widths "
             "1..7 (thorough 1..9); widths up to 64 sampled at boundaries. Held = no read disagreed with wrap(v,w,signed).",
        design_ref="DESIGN.md section 3, C18",
        note="Trusted: the 6-line wrap() reference. Widths above 10 are sampled, not exhaustive.",
    ),
}
CHECKS["C01"] = dict(
    level="exploration",
    technique="runtime monitors: API-boundary recorder + independent reference evaluation of every active hard statement; solver-formula monitor at the guarded hook (solver clone, pointwise SAT over the whole bounded domain)",
    text="Generated constraint programs (typed expression trees over every documented operator, in/rangelist, if/else-if/else, implies, "
         "unique, Boolean composition, enum fields, signed/unsigned fields of 1-8 bits, non-random fields at boundary values) are run "
         "through histories of all four call kinds on live objects. After each successful call the values read back are evaluated "
         "against an independent reference semantics and the declared types; for every call the hard formula the library is about to "
         "assert is compared POINTWISE with the exhaustively enumerated reference solution set over the whole domain of the call's "
         "random fields (<= 2^10 points quick, 2^14 thorough), which exposes lost or mis-lowered constraints that random draws may never witness.",
    design_ref="DESIGN.md section 3, C01; section 2.2-2.3 (M1, M2)",
    note="Trusted: ref.py (400 lines, never imports vsc) on the validated input language; constructs where SystemVerilog-style meaning is "
         "contestable raise Corner and are not judged. Exhaustive equivalence only up to the stated bit budgets.",
)
CHECKS["C02"] = dict(
    level="exploration",
    technique="runtime monitor: outcome (return / SolveFailure / other exception) of every call compared with exhaustive reference satisfiability; hook monitor cross-checks UNSAT from inside the solver",
    text="Same program/history generators as C01 (about 45% of the generated calls are unsatisfiable, the rest satisfiable with small "
         "solution sets), half of the cases with solve_fail_debug=1 on one call. Violations: satisfiable call raised anything; "
         "unsatisfiable call returned; any exception other than SolveFailure out of the library. Satisfiability is decided by "
         "exhaustive enumeration of the reference semantics over the call's random fields.",
    design_ref="DESIGN.md section 3, C02",
    note="Trusted: ref.py; bounded domains (<= 10/14 random bits). One known finding (F23) is classified by mechanism.",
)
NOT_YET = {}
