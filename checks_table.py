"""Table of registered checks (source of MANIFEST.json; see tools/mkmanifest.py)."""
CHECKS = {
    "C18": dict(
        level="exploration",
        technique="runtime monitor: arithmetic reference model compared on every read path after every write path (exhaustive small widths)",
        text="Every value in [-2^(w+1), 2^(w+1)] for widths 1..8 (thorough 1..10), both signednesses, is written through every "
             "write path (attribute, set_val, .val, constructor i=, list append/extend/assign/setitem/init) of live pyvsc fields "
             "and read back through every read path; part-select reads/writes for all (hi,lo) and all current values of widths "
             "1..7 (thorough 1..9); widths up to 64 sampled at boundaries. Held = no read disagreed with wrap(v,w,signed).",
        design_ref="DESIGN.md section 3, C18",
        note="Trusted: the 6-line wrap() reference. Widths above 10 are sampled, not exhaustive.",
    ),
}
CHECKS["C01"] = dict(
    level="exploration",
    technique="runtime monitors: API-boundary recorder + independent reference evaluation of every active hard statement; solver-formula monitor at the guarded hook (solver clone, pointwise SAT over the whole bounded domain)",
    text="Generated constraint programs (typed expression trees over every documented operator, in/rangelist, if/else-if/else, implies, "
         "unique, Boolean composition, enum fields, signed/unsigned fields of 1-8 bits, non-random fields at boundary values) are run "
         "through histories of all four call kinds on live objects. After each successful call the values read back are evaluated "
         "against an independent reference semantics and the declared types; for every call the hard formula the library is about to "
         "assert is compared POINTWISE with the exhaustively enumerated reference solution set over the whole domain of the call's "
         "random fields (<= 2^10 points quick, 2^14 thorough), which exposes lost or mis-lowered constraints that random draws may never witness.",
    design_ref="DESIGN.md section 3, C01; section 2.2-2.3 (M1, M2)",
    note="Trusted: ref.py (400 lines, never imports vsc) on the validated input language; constructs where SystemVerilog-style meaning is "
         "contestable raise Corner and are not judged. Exhaustive equivalence only up to the stated bit budgets.",
)
CHECKS["C02"] = dict(
    level="exploration",
    technique="runtime monitor: outcome (return / SolveFailure / other exception) of every call compared with exhaustive reference satisfiability; hook monitor cross-checks UNSAT from inside the solver",
    text="Same program/history generators as C01 (about 45% of the generated calls are unsatisfiable, the rest satisfiable with small "
         "solution sets), half of the cases with solve_fail_debug=1 on one call. Violations: satisfiable call raised anything; "
         "unsatisfiable call returned; any exception other than SolveFailure out of the library. Satisfiability is decided by "
         "exhaustive enumeration of the reference semantics over the call's random fields.",
    design_ref="DESIGN.md section 3, C02",
    note="Trusted: ref.py; bounded domains (<= 10/14 random bits). Open known findings (random-size lists: F9, F26, F27) are classified by mechanism.",
)

_SOLVER_NOTE = ("Trusted: ref.py (never imports vsc) on the validated input language (ref.Corner => not judged); exhaustive "
                "equivalence up to 10-11 random bits per call in the quick tier, 14 in the thorough tier; known findings "
                "classified by mechanism (known_findings.json).")
CHECKS["C03"] = dict(
    level="exploration",
    technique="runtime monitors: pre/post snapshots of every field through the public read paths (frame condition on success and failure) + reference solution set with the current constants + solver-formula monitor (pointwise SAT on a solver clone)",
    text="Histories of 10-40 operations (assignments to any field, rand_mode toggles, edits of a mutable rangelist and of a non-random list "
         "used by in-constraints, randomize / randomize_with / vsc.randomize(subset) incl. inline constraints naming fields that are not "
         "passed / randomize on a sub-object) over object trees with random and non-random sub-objects. After every call, every leaf that "
         "is not random in that call must read exactly as before (also when the call fails), the values must lie in the reference "
         "solution set computed from the CURRENT non-random values / rand_mode / collection contents, and the lowered formula must be "
         "pointwise equivalent (a stale constant shows at once).",
    design_ref="DESIGN.md section 3, C03", note=_SOLVER_NOTE)
CHECKS["C06"] = dict(
    level="exploration",
    technique="runtime monitors: per-call reference solution set (class blocks AND this call's inline set AND referenced dynamic blocks on the referencing object) + solver-formula monitor on every call of the history",
    text="Populations of 1-5 live instances (created before and after the one under test); randomize() alternating with randomize_with() "
         "whose inline sets hold random statements and 1-3 dynamic references (d(), d1()|d2(), d()&e, ~d(), it.items[i].d(), the same "
         "block referenced repeatedly). Leakage of an earlier inline set or dynamic reference is over-restriction: values never show it, "
         "the pointwise comparison of the formula of the LATER call does.",
    design_ref="DESIGN.md section 3, C06", note=_SOLVER_NOTE)
CHECKS["C07"] = dict(
    level="exploration",
    technique="runtime monitors: reference model of most-derived block per name and per-instance constraint_mode history; API-boundary value check + solver-formula monitor (pointwise SAT on a solver clone)",
    text="Class hierarchies of depth 1-3 with 2-4 block names (each overridden or not, blocks added in derived classes), a holder with a "
         "nested instance and a list of instances; histories of 14-30 operations: constructing further instances before and after toggles, "
         "obj.blk.constraint_mode(b) on top-level / nested / list-element instances, randomize and randomize_with on any instance. An over- "
         "or under-enforced block is a pointwise mismatch of the lowered formula even when no draw witnesses it.",
    design_ref="DESIGN.md section 3, C07", note=_SOLVER_NOTE)
CHECKS["C08"] = dict(
    level="exploration",
    technique="runtime monitors: reference evaluation over fields flattened by attribute path / index + solver-formula monitor (pointwise SAT on a solver clone)",
    text="Object trees of depth 2-3 with several sibling sub-objects of one class, random and non-random sub-objects, lists of objects and "
         "attribute names whose dir() order differs from declaration order; cross-level constraints in class blocks and inline; calls on "
         "the root, on sub-objects and free-standing. Sibling aliasing or a block of a non-random sub-object being enforced appears as the "
         "wrong variable / an extra conjunct in the lowered formula, i.e. a pointwise mismatch.",
    design_ref="DESIGN.md section 3, C08", note=_SOLVER_NOTE)

CHECKS["C04"] = dict(
    level="exploration",
    technique="runtime monitors: snapshots of every list through all read paths after every call and every list edit + reference list semantics with the size as an enumerated variable + solver-formula monitor for fixed-size lists",
    text="Scalar lists (fixed size 0-3, random size up to 2-3, non-random), a second list and lists of objects with foreach (element, index, "
         "both, index arithmetic guarded by if_then(i>0), over objects), sum, unique, unique_vec, size and membership constraints; "
         "append / extend / assign / clear between calls (also after failed calls). After every call: every list statement evaluated over "
         "exactly the exposed elements, len() == size == number of iterated elements, indexing == iteration, fixed-size lists keep their "
         "length, the final size is one the reference admits; after every edit the exposed list equals the expected one.",
    design_ref="DESIGN.md section 3, C04", note=_SOLVER_NOTE + " Pointwise formula equivalence is not applied to calls with a random-size list "
    "(the library's pre-extended element variables have no stable counterpart); those calls are judged at the API boundary. Several genuine "
    "random-size-list defects are known findings (F9, F26, F27, F28).")
CHECKS["C05"] = dict(
    level="exploration",
    technique="runtime monitor: exact greedy-by-priority soft-constraint reference over the exhaustively enumerated hard solution set, compared with the values returned by every call",
    text="Programs with 0-5 hard and 1-6 soft statements (conflicts of every arity, softs under if/else-if/else and implies with random and "
         "non-random guards, several blocks, inline softs), 3-6 calls each. Violations: a call whose hard system is satisfiable fails or "
         "raises; returned values outside the set the greedy reference admits (later statement first, inline over class-level, guarded soft "
         "= implication). Where the property leaves the order unspecified (softs of different class blocks) every block order is accepted.",
    design_ref="DESIGN.md section 3, C05", note=_SOLVER_NOTE)

CHECKS["C14"] = dict(
    level="exploration",
    technique="runtime monitors: hook invariant (inferred range list contains the projection of the enumerated solution set, checked on the bound map the call really uses) + choice-point injection into RandState (complete enumeration of the real randomize() gives exact per-value probabilities)",
    text="Programs biased to the shapes that drive the range propagators (statement-level relational and in constraints against literals, "
         "non-random fields, expressions mixing random and non-random fields, chains between random fields, several disjoint / overlapping / "
         "unsorted ranges combined with bounds that fall inside a range, operands on either side, signed fields, enum fields, disabled "
         "blocks, constraints under if/implies) with previous values left in the random fields. Every inferred range is compared with the "
         "projection of the exhaustively enumerated reference solution set; a field no constraint mentions must keep its whole type. A "
         "quarter of the cases are tiny and are enumerated completely over the choice points of the RandState: a feasible value with "
         "probability exactly 0 is starved. The run is inconclusive unless >= 50% of the satisfiable calls had a really narrowed range.",
    design_ref="DESIGN.md section 3, C14; section 2.3 M2/M3", note=_SOLVER_NOTE + " Exact starvation verdicts only from complete choice "
    "enumerations (<= 6000 paths quick); the C14 defects found (singleton-range literal, F8, F17, F24r) have been repaired in /repo (known_findings.json, 'fixed').")

CHECKS["C15"] = dict(
    level="exploration",
    technique="runtime monitors: reference meaning of dist (membership in the non-zero-weight entries) by value check + solver-formula monitor; choice-point injection into RandState and into the module-level random of distselect/randselect (complete enumeration = exact probabilities)",
    text="(a) dist programs with values, ranges, zero weights, weights supplied by non-random fields that change between calls, dist under "
         "if, two dists on one field and accompanying relational constraints: every call is judged by reference evaluation and pointwise "
         "formula equivalence (zero-weight and unlisted values are excluded from the formula, whatever else constrains the field). (b) "
         "'pure' dist programs: after a history that changes the weights, the last randomize() is run once per path of RandState choice "
         "points; the exact probability of every value must equal sum w_i/total * 1/|entry_i|. (c) distselect / randselect with weight "
         "vectors including zeros, enumerated completely through a choice-point proxy for the module-level random.",
    design_ref="DESIGN.md section 3, C15; section 2.3 M3", note=_SOLVER_NOTE + " Frequencies are only judged where nothing else constrains "
    "the field (as the property states) and only from complete enumerations.")

_COV_NOTE = ("Trusted: covref.py (set-based reference model of bins, crosses, type/instance tallies and coverage arithmetic; imports "
             "nothing from vsc). Genuine defects that are not repaired are classified by mechanism (known_findings.json: F30, F32, F33, F14a).")
CHECKS["C10"] = dict(
    level="exploration",
    technique="runtime monitor: independent set-based coverage reference model compared with the model getters after EVERY sample (quiescent point); exhaustive value sweep per specification for types up to 8 bits",
    text="Generated covergroup specifications (explicit bins with values and disjoint / adjacent / unordered / duplicated / overlapping / "
         "nested ranges, bin arrays with [] and [n] for n around the number of values, auto-bins with various auto_bin_max on unsigned and "
         "signed types, enum coverpoints, ignore and illegal bins cutting bins at every position, wildcard bins, iff by field / expression / "
         "callable, three sampling styles). Every value of the coverpoint's type is sampled, then a random sequence with repeats and "
         "gated-off samples; after each sample every regular / ignore / illegal hit counter and the number of bins must equal the reference.",
    design_ref="DESIGN.md section 3, C10; section 2.3 M6", note=_COV_NOTE)
CHECKS["C11"] = dict(
    level="exploration",
    technique="runtime monitor: reference cross product (names, order, joint hit rule) compared with the cross model getters after every sample",
    text="Covergroups with 2-4 coverpoints of mixed bin kinds (single bins, arrays, collections behind other bins, auto-bins, enums, ignore "
         "bins) and crosses of 2-3 of them, iff on crosses and coverpoints; histories exhaustive over the joint value space when it has "
         "<= 1024 points, then random, placing misses and gated-off samples right after hits (stale hit markers). After every sample: "
         "exactly the cross bin of the hit combination is incremented by one iff every iff holds and every coverpoint hit; otherwise no "
         "cross bin changes; bin count, names '<a,b>' and row-major order equal the reference product.",
    design_ref="DESIGN.md section 3, C11", note=_COV_NOTE)
CHECKS["C12"] = dict(
    level="exploration",
    technique="runtime monitor: reference aggregate (per-instance tallies, per-shape type tallies, weighted at_least coverage arithmetic) over the interleaved sample history, compared after every sample",
    text="Populations of 1-3 generated covergroup classes x 1-3 constructor variants (different sets of bins) x 1-6 instances created at "
         "random points of an interleaved sample history, with at_least in {1,2,3} and weights in {1,2,5}. After every sample: every "
         "instance tally holds only its own samples; every type tally is the bin-wise sum over its same-shape instances; different shapes "
         "have different types; get_coverage()/get_inst_coverage() on covergroups, coverpoints and crosses equal the reference percentage "
         "(tolerance 1e-3), stay in [0,100], never decrease and are 100 exactly when every bin reached its threshold.",
    design_ref="DESIGN.md section 3, C12", note=_COV_NOTE)
CHECKS["C13"] = dict(
    level="exploration",
    technique="runtime monitor: structural diff of four views of one coverage state (model getters, report model, parsed text report, UCIS XML written and read back) at random points of sample histories; state snapshot before/after each report call",
    text="C12-style populations and histories with 2-5 report points. At each point the in-memory state (getters) is compared with "
         "vsc.get_coverage_report_model(), the parsed text of vsc.get_coverage_report(details=True) and the XML written by "
         "vsc.write_coverage_db read back through lxml and PyUCIS: every covergroup type and instance, coverpoint, cross and bin (regular / "
         "ignore / illegal) with names and hit counts; report percentages against get_coverage()/get_inst_coverage(); producing a report "
         "or saving must leave every hit list unchanged.",
    design_ref="DESIGN.md section 3, C13", note=_COV_NOTE + " Temp files live in a per-run directory under /tmp and are removed.")
CHECKS["C19"] = dict(
    level="exploration",
    technique="runtime monitor: reference wildcard matching ((v & mask) == (value & mask)) compared with bin hit counters through the public covergroup API for every sample value of the type; exhaustive over value/mask pairs of <= 8 bits in the thorough tier",
    text="Batches of wildcard bins ((value,mask) pairs, hex / octal / binary strings with x ? _ at any position, 1-3 patterns per bin) and "
         "wildcard bin arrays with and without a count on one coverpoint, swept with every value of the coverpoint's type and compared after "
         "every sample. Quick: all pairs of <= 6 bits plus random 8-bit ones; thorough: all 65536 (value,mask) pairs x 256 samples, all "
         "binary strings <= 8 digits, hex/octal <= 3 digits, arrays for all 6561 in-mask pairs.",
    design_ref="DESIGN.md section 3, C19", note=_COV_NOTE)

CHECKS["C09"] = dict(
    level="exploration",
    technique="cross-process differential runner: one scenario executed in fresh interpreters that differ in exactly one nuisance factor, value traces compared with the baseline; in-process snapshot/restore replays",
    text="Scenarios covering every consumer of randomness (swizzling of > 4 fields, enums, dist, solve_order, random-size lists, soft "
         "fallback, nested objects, free-standing vsc.randomize(randstate=)), with an explicit RandState seed or Python's global seed, are "
         "run in 8 (quick) / 16 (thorough) interpreters: PYTHONHASHSEED 0/1/2/random, unrelated objects randomized in between (own and "
         "default state), random.random()/seed() on the global module, GC churn, extra class definitions, debug=1, solve_fail_debug=1, "
         "VSC_DEBUG, VSC_SOLVEFAIL_DEBUG, VSC_CAPTURE_SRCINFO, @randobj(srcinfo=True). Traces must be identical. In every process "
         "get_randstate() is taken at a random step (also before the object ever had a state) and restored twice; each replay must "
         "reproduce the values that followed.",
    design_ref="DESIGN.md section 3, C09; section 2.3 M7", note="Finite set of nuisance factors (listed in the evidence). No reference model needed: the oracle is equality of traces.")
CHECKS["C16"] = dict(
    level="fault_enumeration",
    technique="fault injection at user-callback positions + idle-state/leak monitor on the process-wide construction stacks and the object's model + twin comparison of the scripted continuation against a pristine session",
    text="Fault positions enumerated per program: each statement index of a constraint body at construction; raise inside randomize_with "
         "at depth plain / if_then / foreach / implies; pre_randomize and post_randomize of each object of the tree; calls made "
         "unsatisfiable (randomize_with, vsc.randomize_with, with solve_fail_debug; also naming a field of ANOTHER object) on programs "
         "with foreach / dist rewrites active and lists edited between the calls; a solver-library error raised while the formula is "
         "built (part-select beyond the field) in a call that names a field of another object. "
         "Right after the faulted call: the five shared stacks are empty, no field model holds a solver handle, no temporary "
         "ConstraintOverrideModel remains, the constraint-tree fingerprint and the exposed length of every list are unchanged. Then both the faulted and a pristine session are "
         "re-seeded and run the same continuation (randomizations, new instances, definition of a NEW class using solve_order): traces "
         "must be equal.",
    design_ref="DESIGN.md section 3, C16; section 2.3 M4", note="The pristine twin runs first in the same worker from a reset construction state; values are compared on successful continuation calls.")
CHECKS["C17"] = dict(
    level="exploration",
    technique="runtime monitor: callback recorder (sequence number, object identity, phase, visible values) checked against the reference set of objects that are random in the call; solver-formula monitor for the value written by pre_randomize",
    text="Object trees with random and non-random members at every level and lists of objects, every class carrying recording "
         "pre_randomize / post_randomize (pre_randomize also writes fresh values into non-random fields that constraints use). Per call "
         "(randomize, randomize_with, vsc.randomize on the root / a sub-object / plain fields, randomize on a sub-object): exactly one pre "
         "and one post for the top object and every sub-object reachable through random members, none below a non-random member, every "
         "pre before every post, post sees the final values, and the lowered formula uses the values pre_randomize wrote.",
    design_ref="DESIGN.md section 3, C17; section 2.3 M5", note=_SOLVER_NOTE)
CHECKS["C20"] = dict(
    level="exploration",
    technique="choice-point injection into RandState: complete enumeration of the real randomize() yields the exact joint distribution; metamorphic comparison of the earlier variable's marginal",
    text="Metamorphic pairs of programs with solve_order (a before b; chains a-b-c written as two statements or as three statements a-b, b-c, a-c "
         "in any order; a and b each before c in two statements; lists of earlier fields; directive in its own block) that differ only in how many values of the later variable accompany each value of the earlier one. Each program is "
         "enumerated completely over the RandState choice points. Judged: every feasible value of a has probability > 0; the marginal is "
         "uniform when feasible(a) fills the range the library inferred for a (read at the hook); the marginal of a is IDENTICAL in the two "
         "programs (chains: the joint distribution of (a, b) when only the b-c coupling differs; fan-in: only starvation of a and b); every "
         "path satisfies the constraints; no path of a satisfiable system raises.",
    design_ref="DESIGN.md section 3, C20; section 2.3 M3", note="Only complete enumerations are judged (<= 8000 paths per program in the quick tier, 100000 thorough).")
NOT_YET = {}
