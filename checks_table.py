"""Table of registered checks (source of MANIFEST.json; see tools/mkmanifest.py)."""
CHECKS = {
    "C18": dict(
        level="exploration",
        technique="runtime monitor: arithmetic reference model compared on every read path after every write path (exhaustive small widths)",
        text="Every value in [-2^(w+1), 2^(w+1)] for widths 1..8 (thorough 1..10), both signednesses, is written through every "
             "write path (attribute, set_val, .val, constructor i=, list append/extend/assign/setitem/init) of live pyvsc fields "
             "and read back through every read path; part-select reads/writes for all (hi,lo) and all current values of widths "
             "1..7 (thorough 1..9); widths up to 64 sampled at boundaries. Held = no read disagreed with wrap(v,w,signed).",
        design_ref="DESIGN.md section 3, C18",
        note="Trusted: the 6-line wrap() reference. Widths above 10 are sampled, not exhaustive.",
    ),
}
NOT_YET = {}
